#!/usr/bin/env python3
# usage: mkmutant.py <out.patch> <file> <<< "OLD\n====\nNEW"   (first occurrence replaced; several blocks separated by a line '----')
import sys, subprocess
out, f = sys.argv[1], sys.argv[2]
spec = sys.stdin.read()
src = open(f).read()
for blk in spec.split("\n----\n"):
    old, new = blk.split("\n====\n")
    allocc = old.startswith("@all\n")
    if allocc: old = old[5:]
    old = old.strip("\n"); new = new.strip("\n")
    cnt = src.count(old)
    if cnt < 1:
        print("OLD not found:\n" + old); sys.exit(1)
    src = src.replace(old, new, -1 if allocc else 1)
open(f, "w").write(src)
d = subprocess.run(["git", "-C", "/repo", "diff"], capture_output=True, text=True).stdout
open(out, "w").write(d)
subprocess.run(["git", "-C", "/repo", "checkout", "--", "."])
print("wrote", out, len(d.splitlines()), "lines")
