#!/bin/bash
# Runs the repository's pinned suite (guard off: no overlay, no tags) and compares with BASELINE.json.
# usage: baseline.sh [repo-dir]
export GOFLAGS=-mod=mod GOPROXY=off GOSUMDB=off GOTOOLCHAIN=local
R=${1:-/repo}
cd "$R" && go test -json -vet=off -count=1 -timeout 25m ./... 2>/dev/null | python3 -c '
import json,sys
base=set(json.load(open("/root/.vp/BASELINE.json"))["stable_pass"])
ok=set()
for l in sys.stdin:
    try: e=json.loads(l)
    except Exception: continue
    if e.get("Action")=="pass" and e.get("Test"):
        ok.add(e["Package"]+"::"+e["Test"])
missing=sorted(base-ok)
print("baseline: %d/%d pass" % (len(base&ok),len(base)))
for m in missing: print("  MISSING", m)
sys.exit(1 if missing else 0)
'
