#!/bin/bash
# usage: mutant.sh <patch-file> <property>...   applies the patch to /repo, runs the baseline and the
# quick checks, reverts. Prints one summary line per check.
P=$1; shift
cd /repo || exit 2
if [ -n "$(git status --porcelain)" ]; then echo "repo dirty"; exit 2; fi
git apply --recount "$P" || { echo "patch does not apply: $P"; exit 2; }
trap 'cd /repo && git checkout -- . && git clean -fdq' EXIT
/verif/tools/baseline.sh | head -3
for c in "$@"; do
  out=$(/verif/run.sh check $c --tier ${TIER:-quick} 2>&1); rc=$?
  echo "== $c rc=$rc $(echo "$out" | grep -c '^VIOLATION') violation line(s)"
  echo "$out" | grep -E "^  key|infrastructure|KNOWN" | sort | uniq -c | head -8
done
