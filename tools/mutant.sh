#!/bin/bash
# usage: mutant.sh <patch-file> <property>...   applies the patch to a scratch worktree of /repo's HEAD, runs the
# baseline suite and the quick checks against that worktree (VX_REPO), removes it. /repo is never touched.
P=$(readlink -f "$1"); shift
W=/tmp/mutant-$$
git -C /repo worktree add --detach -q $W HEAD || exit 2
trap 'git -C /repo worktree remove --force $W 2>/dev/null; rm -rf /tmp/mutant-ev-$$' EXIT
cd $W
git apply --recount "$P" || { echo "patch does not apply: $P"; exit 2; }
/verif/tools/baseline.sh $W | head -3
for c in "$@"; do
  out=$(VX_REPO=$W VX_EVIDENCE_DIR=/tmp/mutant-ev-$$ /verif/run.sh check $c --tier ${TIER:-quick} 2>&1); rc=$?
  echo "== $c rc=$rc $(echo "$out" | grep -c '^VIOLATION') violation line(s)"
  echo "$out" | grep -E "^  key|infrastructure|KNOWN" | sort | uniq -c | head -8
done
