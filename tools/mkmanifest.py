#!/usr/bin/env python3
# Generates /verif/MANIFEST.json from the table below (edit here, then run).
import json, subprocess

PROPS = [json.loads(l)["id"] for l in open("/verif/properties.jsonl")]

def src_commits():
    return []

A = "vsched"
B = "venum"
CLAIMED = {
 "C14": dict(engine=A, design="§3 C14",
   technique="stateless model checking of the implementation: exhaustive delay-bounded DFS over schedules and environment events of closed lifecycle scenarios (controlled scheduler, instrumented real code)",
   text="Every interleaving, up to the stated delay bound, of {serving call, 1-2 Shutdown calls, 0-2 client connections of 5 kinds, second Bind/Listen, context cancel, late client, second round} is executed on the real Service code (sync, go, select and field accesses rewritten to run under a controlled scheduler; controlled listener/connection) and judged in its quiescent final state: serving returned if a Shutdown was issued while bound; nil when Shutdown found it blocked in Accept; no late client accepted; count 0 / no listener / not running / all accepted connections closed at return; listener closed; refused second bind changes nothing. A serving call parked forever is a stable state of the explored system, not a timeout.",
   note="Trusts vnet's model of net.Listener/net.Conn and that scheduling points at sync/channel/select/field-access/vnet operations are sufficient; bounded by the scenario alphabet and the delay bound reported in the evidence."),
 "C15": dict(engine=A, design="§3 C15",
   technique="stateless model checking of the implementation: exhaustive delay-bounded DFS over schedules with accept-deadline expiries injected as timer-thread events by a controlled listener",
   text="Every interleaving, up to the delay bound, of {serving call via Listen and via DoListen with/without idle timeout, 0-2 client connections of 6 kinds, 1-3 accept-deadline expiries, optional Shutdown, optional second round} runs on the real code. For every accept time-out the oracle compares what the loop did next (re-arm = keeps serving, close/return = stops) with the state of the accepted connections: a connection open from before the expiry until the loop acted forbids stopping; no open or pending connection and no live handler forces stopping with exactly ServiceTimeoutError; every Accept is preceded by a fresh SetDeadline; without timeout no deadline is ever armed and the service never stops by itself; after a time-out return the listener is closed, the state is clean and a second round serves.",
   note="Time is the timer thread's events: the value given to SetDeadline is not interpreted. An expired deadline makes Accept fail even when a connection is queued (as Go's netpoller does); that case is classed unspecified. Trusts vnet and the scheduling-point set as for C14."),
 "C16": dict(engine=A, design="§3 C16",
   technique="exhaustive delay-bounded schedule exploration of the implementation with an exact vector-clock happens-before race monitor on instrumented field accesses",
   text="Every pair and triple of {Shutdown, GetListener, RegisterInterface(new), RegisterInterface(duplicate)} is issued from separate threads after the serving call (Listen and DoListen, with and without idle timeout) has been entered, together with 0-3 client connections; all interleavings up to the delay bound are executed on the real code, every field access of Service/ctxio.Conn state is a scheduling point and an event of a vector-clock monitor; a violation is a pair of conflicting accesses unordered by happens-before in some explored schedule. No sampling: the claim is 'no explored schedule contains an HB-race on instrumented state'.",
   note="Sees only instrumented accesses (fields of structs declared in varlink/ctxio that are written after construction, pointer-field method calls such as the bufio.Reader, package variables); trusts the listed happens-before edges to be complete for sync.Mutex/WaitGroup, buffered channels, context, net.Conn. Go's own race detector is not used to decide."),
 "C01": dict(engine=A, design="§3 C01",
   technique="stateless model checking of the implementation: exhaustive enumeration of call scripts x handler reply scripts x request segmentations on 1-3 connections, each explored under all schedules up to a delay bound, against a sequential per-connection reference model",
   text="All call sequences of length <=2 (thorough: <=3 over a sub-alphabet) over 70 call kinds (5 flag sets x {10 handler reply scripts on a registered interface, unknown interface, no interface, GetInfo, unknown built-in method}) are sent by a raw client in one write (with schedule deviations), split at byte offsets, and one byte per write; two and three connections with collision-forcing scripts are explored under all interleavings up to the delay bound. Per connection the frames on the wire and the handler's log of reply attempts must equal a 60-line sequential reference model of that connection alone; at most one handler is active per connection; the service closes the connection after EOF or a handler error.",
   note="The reference model is a restatement of the property text; clients half-close so reply writes cannot fail (peer loss is C10's). Trusts vnet and the scheduling-point set as for C14."),
 "C10": dict(engine=A, design="§3 C10",
   technique="stateless model checking of the implementation with exhaustive fault enumeration: frame-kind sequences x client abort at every byte offset x 3 ways of going away x reply-write failures, with a concurrent probe connection, under all schedules up to a delay bound at frame boundaries",
   text="For every sequence of <=2 (thorough <=3) frames over 20 frame kinds and an optional unterminated tail the client stops after every byte offset and half-closes, closes or aborts; additionally the n-th reply write fails. A probe connection performs three calls concurrently and a Shutdown follows. Oracle: no panic; the victim's replies and dispatch log equal (half-close) or are a prefix of (peer gone) the reference computed from the complete, well-shaped frames before the first offending one; the probe gets exactly its replies; afterwards no handler thread is left, the connection count is 0, every accepted connection was closed by the service and the serving call returns.",
   note="classifyCall restates 'of the call's shape'; vnet's abort/EPIPE semantics are assumed to match a kernel socket's; schedule deviations only at frame-boundary offsets (other offsets run the default schedule)."),
 "C17": dict(engine=A, design="§3 C17",
   technique="stateless model checking of the implementation: exhaustive delay-bounded DFS placing the cancellation / deadline expiry at every scheduling point of ctxio operation sequences against a controlled peer, with a byte-stream reference model",
   text="Sequences of <=3 operations {ReadBytes, raw Read, Write} on the real ctxio.Conn over a controlled connection, the first 1-2 under a cancellable context (cancel, or deadline = context expiry and connection-deadline expiry in both orders), 3 segmentations of the peer's stream, draining and stalled peers, plus service handlers parked in their per-connection read when the serving context ends. All interleavings up to the delay bound, i.e. the cancellation at every instant relative to data arrival and to both select branches. Oracle: every operation returns (a thread parked forever is the violation); cancelled operations report a context/timeout error or their normal result; no helper goroutine is alive when an operation returns; an operation under a live context never fails with a timeout; delivered bytes are in order, unduplicated, and may be missing only if they had arrived before a cancelled operation returned; successful writes reach the peer in order; cancelled handlers end and close their connection.",
   note="Decided on vnet's model of the documented net.Conn deadline semantics. Whether real transports (unix, tcp, net.Pipe, bridge PipeCon) honour those semantics is a separate conformance matrix (see DESIGN.md §C17); the armed-deadline clause is judged functionally (next operation must not time out)."),
 "C13": dict(engine=A, design="§3 C13",
   technique="exhaustive enumeration of register/serve/shutdown/query histories up to a length bound, executed on the implementation under the controlled scheduler and compared step by step with a list+map reference model",
   text="All histories of length <=4 (thorough <=5) over {register one of 6 name/description pairs (incl. a duplicate name with a different text, the built-in name, a resolver), serve, shutdown, query} and 3 identity-string sets are executed on the real Service; a query uses the library's own client helpers over a controlled connection: GetInfo (also with nil out-pointers), GetInterfaceDescription for every name ever mentioned plus its prefix, upper-case variant and one-character extension, '', and Resolver.GetInfo/Resolve when a resolver is registered. Every registration verdict, the registered-names list after every step and every query result must equal the reference model (names in registration order after org.varlink.service, texts verbatim incl. '', non-ASCII and a 76 KiB text, InvalidParameter(interface) otherwise, refusals change nothing).",
   note="Strings come from a small adversarial alphabet (valid UTF-8 only, as the property says); schedules: default plus 1 deviation for short histories - the data-race side of registering while serving is C16's."),
 "C18": dict(engine=A, design="§3 C18",
   technique="bounded-exhaustive enumeration of read-primitive words x byte streams x segmentations, executed on the real ctxio.Conn under the controlled scheduler against a cursor (byte-stream prefix) model; end-to-end Upgrade on both sides with schedule exploration",
   text="Every word of length <=3 (thorough <=4) over {ReadBytes, Read(1), Read(2), Read(7), Read(4096), Read(8192)} is run against 13 streams (0-2 frames, frames of 4095/4096/4097 bytes, payloads incl. NUL bytes and one larger than the buffer) under every listed segmentation (unsplit, every single cut, pairs of cuts, byte-by-byte; boundary offsets for long streams). Each primitive must return exactly the next bytes (ReadBytes: through the next NUL; Read(n): 1..n bytes), EOF only at the end, never skipping or repeating a byte whatever an earlier primitive buffered. End to end: client Upgrade + raw reads with the payload coalesced with the reply frame, and a handler reading call.Conn after a request frame followed by payload in the same write, split at every offset.",
   note="Segment boundaries are exactly the listed cuts (vnet returns at most one segment per read); streams are an alphabet around the 4096-byte buffer, not all byte strings."),
 "C04": dict(engine=A, design="§3 C04",
   technique="bounded-exhaustive enumeration of method strings x registered-interface sets, each call executed on the real Service under the controlled scheduler and compared with an independent routing model and per-dispatcher invocation logs",
   text="About 7,500 method strings (all dot-joined sequences of <=4 tokens over 9 tokens incl. the empty token, plus prefixes, extensions, case variants, doubled/leading/trailing dots and spaces around every registrable name and the built-in interface, a 6 KiB method, NUL and quote characters) are sent against each of the 64 sets of <=3 registered names out of 7 (incl. org.varlink, org.varlink.servicex, a non-ASCII name). For every call: exactly one reply; it is the reply of exactly one dispatcher invoked exactly once with the text after the last dot, or InterfaceNotFound{interface}, InvalidParameter{method}, MethodNotFound{method} with no dispatcher invoked; the connection stays usable (calls are batched on one connection). 21 frames that are not calls are never dispatched or answered and end the connection (null, {} and {method:null} are answered like a call without method).",
   note="The routing model splits with strings.Split and rejoins; token alphabet, not all strings. Default schedule only (routing is sequential code)."),
 "C12": dict(engine=A, design="§3 C12",
   technique="bounded-exhaustive enumeration of error names x parameter documents through the real ReplyError -> wire -> Connection.Call path under the controlled scheduler, against an independent name classifier and raw-JSON equality",
   text="All dot-joined error names of <=4 (thorough <=5) tokens over 7 tokens (incl. empty, the reserved namespace's parts and a non-ASCII token) plus near-misses of org.varlink.service, each with 5 parameter documents, are sent by a handler and received by the library client: sendable names arrive as *varlink.Error with exactly that name, raw-JSON-equal parameters (numbers compared as text) and exactly one frame on the wire; unsendable names are refused with nothing written (the handler's fallback reply is the only frame). The four typed helpers x 4 argument strings arrive as their typed errors with the exact string. A scripted raw server checks the client mapping alone.",
   note="Names with an empty last part are counted as unspecified. Alphabets, not all strings / all JSON."),
 "C02": dict(engine=A, design="§3 C02",
   technique="bounded-exhaustive enumeration of adversarial parameter values (emission) and of message sequences x segmentations (reception), executed on the real code under the controlled scheduler; frame validity judged by an independent JSON recogniser",
   text="Emission: ~120 values (strings with NUL, quotes, each C0 control, non-BMP and invalid UTF-8, also as object keys; nesting to 2000; strings/arrays at 4095/4096/4097/65535/65536 bytes and 1 MiB (thorough 4-8 MiB); big integers; unencodable values) travel as call parameter, reply, continues-reply, error parameter and inside a built-in error; the bytes captured in both directions must be a sequence of (syntactically valid JSON object, NUL) with no NUL inside and one write per frame. Reception: sequences of <=2 (thorough <=3) messages of 60/4095/4096/4097/70000 bytes towards the service and towards the client under no cut, every single cut (all offsets for short streams; frame boundaries +-2 and multiples of 4096 +-1 otherwise), cut pairs and byte-by-byte; the recovered message sequence equals the sent one for every segmentation.",
   note="Value and size alphabets, not all JSON; the JSON recogniser is hand-written (RFC 8259) so that encoding/json is not its own judge."),
 "C03": dict(engine=A, design="§3 C03",
   technique="bounded-exhaustive enumeration of JSON documents and more-sequence lengths through the real client and service under the controlled scheduler, compared token-wise (numbers as text)",
   text="All objects with <=2 members over 3 keys (incl. non-ASCII and empty) and values of depth <=1 (thorough <=2) over 15 leaves incl. -0, 2^53+1, 2^64, 1E+2, 1e-7, strings with NUL and non-BMP characters, {} and [] (quick ~11k, thorough ~170k documents) are sent as raw JSON via Call and Send+receive; the handler's GetParameters view and the client's received reply must be raw-JSON-equal to the document; every more-sequence of length 0..3 over 4 documents must arrive in order with continues set on all but the last; typed Go values with int64/uint64/float extremes round-trip.",
   note="This stage uses the controlled in-memory transport; unix/abstract/tcp/bridge transports are covered by a separate transport stage with a smaller alphabet (see DESIGN.md)."),
 "C11": dict(engine=A, design="§3 C11",
   technique="bounded-exhaustive enumeration of server reply streams with fault enumeration (server death at every byte offset, two ways) on the real Connection under the controlled scheduler, against an independent reply classifier",
   text="Reply streams of <=2 frames over 19 frame kinds are served by a scripted raw server that closes or resets after every byte offset, and the complete stream is delivered under every single cut; the client uses Send+receive (one more receive than frames), Call and Upgrade. Every receive must return exactly the next complete frame's parameters and continues flag, an error for frames that are not JSON objects of the reply's shape (null = empty reply), the remote error (typed for org.varlink.service errors), io.ErrUnexpectedEOF when the stream ends before the NUL, and never success for an incomplete frame; all 16 flag words: forbidden combinations write nothing, others put exactly the requested flags on the wire.",
   note="After a reset an earlier complete frame may be lost (any error accepted); {\"error\":\"\"} is unspecified; ~48k (stream, offset, mode, api) cases in quick."),
 "C05": dict(engine=B, design="§3 C05",
   technique="bounded-exhaustive enumeration of syntax trees x layouts (every gap x every filler), each rendered text parsed by the real parser and compared node by node with the generating tree",
   text="~1,750 descriptions (thorough ~10,000): every type expression of depth <=2 (thorough 3) over all 11 constructors placed as alias body, method input field, method output field, error parameter and alias-struct field; all member-list shapes of <=3 members; 5 interface-name forms. Each is rendered in the default layout, with every single gap (thorough: gap pairs) set to every other filler the grammar allows there (empty, space, tab, CRLF, LF, blank line, trailing comment, empty comment, comment without space, two comment lines), with 5 end-of-input forms (no final newline, comment ending at end of input), and with comment blocks above the interface and each member (7 shapes x 3 indents x LF/CRLF). Oracle: accepted; name, Members in source order and consistent with Aliases/Methods/Errors (same pointers, same order), every type node, field names, enum members, Description verbatim, documentation = the block's lines without '#' and one optional space.",
   note="Strict grammar S is the check's reading of the varlink grammar (DESIGN.md); documentation is judged only for blocks on their own lines directly above the member."),
 "C06": dict(engine=B, design="§3 C06",
   technique="bounded-exhaustive enumeration of token sequences and single-token edit neighbourhoods, judged by a reprint round-trip, tree invariants and an independent liberal recogniser",
   text="All sequences of <=5 tokens over a 23-token alphabet (keywords, names, punctuation, prefix operators, [int], newline, comments, a non-ASCII byte) after 'interface a.b', joined by a space and by nothing (12.9 M texts; thorough adds length 6 over 12 tokens), plus every single-token deletion, substitution, insertion, transposition and duplication of every default-layout description of the tree set, duplicated members and trailing garbage. Whenever the parser accepts: re-printing its tree must reproduce the input up to whitespace and comments, no optional directly wraps an optional, parenthesised lists are all typed or all bare, member names unique, >=1 method, and a separately written liberal recogniser must accept too; an error never comes with a tree.",
   note="The liberal grammar L (gaps anywhere, any alphanumeric names) is the check's statement of 'the most liberal reading'; texts in L but outside the strict grammar are unspecified for acceptance."),
 "C09": dict(engine=B, design="§3 C09",
   technique="bounded-exhaustive enumeration of truncations, short byte strings behind grammar prefixes, token sequences and size/depth bombs, each parsed under recover with a progress watchdog",
   text="Every byte-prefix of every description of the tree set in 3 layouts (incl. comments at every gap and input ending inside a comment); every byte string of length <=5 (thorough <=6) over 13 bytes (all punctuation terminals, '#', LF, space, letters, NUL, 0xff) behind 11 prefixes that put the parser in each of its states; token sequences <=3; 17 inputs at the 64 KiB bound (32k-deep '[]', 16k-deep nested structs, 64 KiB comment, 64 KiB of '#', NUL and 0xff runs). Oracle: idl.New returns exactly one of tree/error, never panics; no input stalls for 120 s.",
   note="Not all byte strings up to 64 KiB: an alphabet and all truncations of a bounded-exhaustive positive set; coverage-guided fuzzing is a different technique family and is not used."),
 "C19": dict(engine=B, design="§3 C19",
   technique="explicit enumeration of operation histories (depth <=5) over an address-string alphabet on one real Service object with real kernel sockets, judged step by step against a reference address classifier; differential over 11 preceding object histories",
   text="Every string of a grammar product (10 protocol forms incl. empty, missing, upper case, tcp4, unixpacket x 16 path/host forms incl. empty, '@', abstract, relative, absolute, missing directory, host:port, port 0, non-ASCII x 7 ';' tails, each also with leading space, doubled colon, spaces around the colon: ~5,600 strings) and every token sequence of <=4 (thorough <=5) tokens over 11 tokens (~16k) is given to Bind, Listen+client+Shutdown, Bind;Bind;Shutdown and NewConnection on a fresh Service, filesystem paths in 4 pre-states (absent, stale socket, regular file, directory), each history ending with 'the same object serves a known-good address'; additionally 11 first operations (successful/failing/refused binds and serves) x optional Shutdown precede every grammar string. Oracle: no panic; strings without '<protocol>:', with a protocol other than unix/tcp or an empty unix path are refused and leave the installed listener unchanged; otherwise the installed listener's endpoint is the one the string denotes up to the first ';', abstract creates no file, a path has a socket file after bind (also over a stale socket) and none after shutdown, a client given the same string gets this service's GetInfo, serving state is reset, well-formed strings on free endpoints must bind.",
   note="Real kernel objects, no schedule control (every clause concerns a state after a join); endpoints are private (temp directory, per-history abstract names, probed-free TCP ports; a busy port is re-picked). OS errors for well-formed strings and regular files/directories in the way are counted, not judged."),
}

NOT_YET = "check not built yet (work in progress; see DESIGN.md for the plan)"

def main():
    checks = []
    na = []
    for p in PROPS:
        c = CLAIMED.get(p)
        if not c:
            na.append({"property_id": p, "reason": NOT_YET})
            continue
        checks.append({
            "property_id": p,
            "quick_cmd": "/verif/run.sh check %s --tier quick" % p,
            "thorough_cmd": "/verif/run.sh check %s --tier thorough" % p,
            "evidence_file": "/verif/evidence/%s.json" % p,
            "replay_cmd_template": "/verif/run.sh replay {path}",
            "engine": c["engine"],
            "level_claimed": {"category": c.get("category", "model_checking"), "text": c["text"], "design_ref": c["design"]},
            "level_note": c["note"],
            "technique": c["technique"],
        })
    m = {
        "version": 1,
        "setup_cmd": "/verif/setup.sh",
        "hooks": {
            "guard": "verif",
            "enable": "no hook files are committed in /repo: every check regenerates a go build -overlay from /repo's working tree (vx/cmd/vinstr rewrites sync/go/select/channel ops and field accesses of packages varlink and ctxio to run under vx/vsched, and adds /verif/overlay_src/varlink/verif_access.go); the tag name is recorded for completeness only",
            "baseline_off_cmd": "/verif/tools/baseline.sh",
            "source_commits": src_commits(),
            "add_only": True,
        },
        "engines": [
            {"name": "vsched", "path": "/verif/vx/vsched", "serves_properties": [p for p in PROPS if CLAIMED.get(p, {}).get("engine") == A],
             "kind_free_text": "hand-written controlled scheduler + stateless delay-bounded DFS explorer + vector-clock race monitor, bound to the code by a go build -overlay produced by /verif/vx/cmd/vinstr"},
            {"name": "venum", "path": "/verif/vx/hb", "serves_properties": [p for p in PROPS if CLAIMED.get(p, {}).get("engine") == B],
             "kind_free_text": "bounded-exhaustive enumerators (trees x layouts, token sequences, edit neighbourhoods, configuration products) with reference models, run against the uninstrumented working tree"},
        ],
        "checks": checks,
        "not_applicable": na,
        "notes": "Genuine defects repaired in /repo by 'fix:' commits are listed in /verif/findings/known-findings.txt (fixed: lines).",
    }
    json.dump(m, open("/verif/MANIFEST.json", "w"), indent=1)
    print("claimed:", [c["property_id"] for c in checks])

main()
