#!/bin/bash
# usage: selftest.sh [pattern]   runs every mutant patch under /verif/mutants against the quick check of the property
# named by its file name (IDL-* against C05 C06 C09) in a scratch worktree and prints one line per (mutant, check).
# A mutant is "caught" when the check exits 1 with a VIOLATION line; the table is written to docs/mutant-results.txt
# by the caller. /repo is never touched.
cd /verif/mutants || exit 2
for p in ${1:-*}.patch; do
  id=${p%%-*}
  case $id in IDL) props="C05 C06 C09";; *) props=$id;; esac
  out=$(/verif/tools/mutant.sh /verif/mutants/$p $props 2>&1)
  base=$(echo "$out" | grep -m1 '^baseline:' )
  echo "$out" | grep '^== ' | while read -r _ c rc rest; do
    echo "$p $c $rc $(echo $rest | cut -d' ' -f1) violation-lines | $base"
  done
done
