#!/opt/veriftools/pyvenv/bin/python
# Validates MANIFEST.json and every evidence file against the schemas in /root/.vp.
import json, glob, sys, jsonschema
ok = True
def v(path, schema):
    global ok
    try:
        jsonschema.validate(json.load(open(path)), json.load(open(schema)))
    except Exception as e:
        ok = False
        print("INVALID", path, str(e).splitlines()[0])
v("/verif/MANIFEST.json", "/root/.vp/MANIFEST.schema.json")
for f in sorted(glob.glob("/verif/evidence/*.json")):
    v(f, "/root/.vp/EVIDENCE.schema.json")
print("schemas ok" if ok else "schema errors")
sys.exit(0 if ok else 1)
