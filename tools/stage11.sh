#!/bin/bash
# usage: stage11.sh <Cxx> <a|b> <n> [extra checks...]  - copies a delivered round-11 change into seeded/<Cxx>-<n> and runs seedcheck
P=$1; L=$2; N=$3; shift 3
SRC=/tmp/r11/out/$P-$L; DST=/verif/seeded/$P-$N
[ -f $SRC/patch.diff ] || { echo "no patch in $SRC"; exit 2; }
mkdir -p $DST && cp -r $SRC/. $DST/
/verif/tools/seedcheck.sh $DST $P "$@" 2>&1 | tee $DST/.seedcheck.log | tail -14
