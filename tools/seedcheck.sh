#!/bin/bash
# usage: seedcheck.sh <dir with patch.diff and demo/> <property>...
# Confirms a seeded change in a scratch worktree of /repo's HEAD (applies, builds, baseline passes, the
# demonstration fails with the change and passes without), then applies it to /repo, runs the quick
# checks of the named properties and reverts. Prints a summary; never touches /repo (the checks read the scratch worktree through VX_REPO).
export GOFLAGS=-mod=mod GOPROXY=off GOSUMDB=off GOTOOLCHAIN=local
D=$(readlink -f "$1"); shift
W=/tmp/seedcheck-$$
BASE=HEAD
if [ -f "$D/meta.json" ]; then b=$(jq -r '.base_commit // empty' "$D/meta.json"); [ -n "$b" ] && BASE=$b; fi
git -C /repo worktree add --detach -q $W $BASE || exit 2
cleanup() { git -C /repo worktree remove --force $W 2>/dev/null; rm -rf /tmp/seedcheck-ev-$$; }
trap cleanup EXIT
cd $W
if ! git apply --recount "$D/patch.diff"; then echo "SEED patch-does-not-apply"; exit 3; fi
if ! go build ./varlink/... ./cmd/varlink-go-interface-generator/ 2>&1 | tail -5; then echo "SEED build-fails"; fi
echo "-- baseline with change:"; /verif/tools/baseline.sh $W | head -4
# place the demo
place() {
  if [ -d "$D/demo/varlink" ] || [ -d "$D/demo/cmd" ]; then (cd "$D/demo" && find . -type f | while read f; do mkdir -p "$W/$(dirname $f)"; cp "$f" "$W/$f"; done)
  else for f in "$D"/demo/*.go; do
      pk=$(grep -m1 '^package ' "$f" | awk '{print $2}')
      case "$pk" in
        ctxio*) cp "$f" $W/varlink/internal/ctxio/ ;;
        idl*) cp "$f" $W/varlink/idl/ ;;
        main) cp "$f" $W/cmd/varlink-go-interface-generator/ ;;
        *) cp "$f" $W/varlink/ ;;
      esac
    done
  fi
}
place
pkgs=$(cd $W && git status --porcelain | grep '^??' | awk '{print $2}' | xargs -n1 dirname | sort -u | sed 's|^|./|')
echo "-- demo packages: $pkgs"
echo "-- demo WITH change (expect FAIL):"
go test -vet=off -count=1 -timeout 10m $pkgs 2>&1 | grep -E "^(--- FAIL|FAIL|ok|panic)" | head -8
git apply -R --recount "$D/patch.diff"
echo "-- demo WITHOUT change (expect ok):"
go test -vet=off -count=1 -timeout 10m $pkgs 2>&1 | grep -E "^(--- FAIL|FAIL|ok|panic)" | head -8
# the checks run against the scratch worktree (VX_REPO), /repo itself is never touched
rm -f $(git status --porcelain | grep '^??' | awk '{print $2}')
git apply --recount "$D/patch.diff" || { echo "SEED patch-does-not-apply"; exit 3; }
for c in "$@"; do
  out=$(VX_REPO=$W VX_EVIDENCE_DIR=/tmp/seedcheck-ev-$$ /verif/run.sh check $c --tier ${TIER:-quick} 2>&1); rc=$?
  echo "== $c rc=$rc $(echo "$out" | grep -c '^VIOLATION') violation line(s)"
  echo "$out" | grep -E "^  key|infrastructure|KNOWN" | sort | uniq -c | head -6
done
