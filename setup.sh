#!/bin/bash
# Builds the framework offline from files on disk and warms the Go build cache.
set -e
export GOFLAGS=-mod=mod GOPROXY=off GOSUMDB=off GOTOOLCHAIN=local
cd /verif/vx
mkdir -p /verif/bin /verif/build /verif/evidence /verif/replays
go build -o /verif/bin/vinstr ./cmd/vinstr
go build -o /verif/bin/vx ./cmd/vx
/verif/bin/vx warm
