#!/bin/bash
# Entry point of every registered check: (re)builds the driver if needed, then runs it.
export GOFLAGS=-mod=mod GOPROXY=off GOSUMDB=off GOTOOLCHAIN=local
cd /verif/vx || exit 2
if [ ! -x /verif/bin/vx ] || [ -n "$(find /verif/vx/cmd -newer /verif/bin/vx -name '*.go' 2>/dev/null | head -1)" ]; then
  mkdir -p /verif/bin /verif/build
  go build -o /verif/bin/vinstr ./cmd/vinstr && go build -o /verif/bin/vx ./cmd/vx || exit 2
fi
exec /verif/bin/vx "$@"
