// vx: driver of the /verif checks.
//
//	vx check <ID> [--tier quick|thorough]   build from /repo's working tree, explore, write evidence
//	vx replay <path>                        re-execute one recorded violation
//
// Exit codes: 0 property held on everything explored (known findings are printed as
// KNOWN-FINDING lines), 1 with a line "VIOLATION property=<id> replay=<path>", 2 infrastructure error.
package main

import (
	"encoding/json"
	"fmt"
	"os"
	"os/exec"
	"path/filepath"
	"runtime"
	"sort"
	"strconv"
	"strings"
	"sync"
	"time"
)

const (
	verif = "/verif"
	repo  = "/repo"
)

type propCfg struct {
	harness                     string // "ha" (instrumented, controlled scheduler) | "hb" (plain build + static overlay)
	also                        string // a second harness whose shards run the property's real-transport / real-process stage
	alsoShards                  int
	shards                      int
	technique                   string
	quickBudget, thoroughBudget time.Duration
}

var propsCfg = map[string]propCfg{}

func init() {
	for _, id := range []string{"C01", "C10", "C13", "C14", "C15", "C16", "C17"} {
		propsCfg[id] = propCfg{harness: "ha", shards: 16, quickBudget: 150 * time.Second, thoroughBudget: 40 * time.Minute}
	}
	for _, id := range []string{"C02", "C03", "C04", "C11", "C12", "C18"} {
		propsCfg[id] = propCfg{harness: "ha", shards: 16, quickBudget: 150 * time.Second, thoroughBudget: 40 * time.Minute}
	}
	for _, id := range []string{"C01", "C10"} {
		// the two largest thorough enumerations (about 40 and 35 minutes on 16 idle cores)
		c := propsCfg[id]
		c.thoroughBudget = 75 * time.Minute
		propsCfg[id] = c
	}
	for _, id := range []string{"C02", "C03", "C15", "C17", "C18"} {
		c := propsCfg[id]
		c.also, c.alsoShards = "hb", 4
		propsCfg[id] = c
	}
	for _, id := range []string{"C05", "C06", "C07", "C08", "C09", "C19", "C20"} {
		propsCfg[id] = propCfg{harness: "hb", shards: 16, quickBudget: 150 * time.Second, thoroughBudget: 40 * time.Minute}
	}
}

func goEnv() []string {
	env := os.Environ()
	env = append(env, "GOFLAGS=-mod=mod", "GOPROXY=off", "GOSUMDB=off", "GOTOOLCHAIN=local")
	return env
}

func run(dir string, name string, args ...string) (string, error) {
	cmd := exec.Command(name, args...)
	cmd.Dir = dir
	cmd.Env = goEnv()
	out, err := cmd.CombinedOutput()
	return string(out), err
}

func infra(format string, a ...interface{}) {
	fmt.Fprintf(os.Stderr, "vx: infrastructure error: "+format+"\n", a...)
	os.Exit(2)
}

type known struct {
	prop, key, text string
}

func loadKnown() []known {
	b, err := os.ReadFile(filepath.Join(verif, "findings/known-findings.txt"))
	if err != nil {
		return nil
	}
	var out []known
	for _, l := range strings.Split(string(b), "\n") {
		l = strings.TrimSpace(l)
		if !strings.HasPrefix(l, "known:") {
			continue
		}
		// known: property=<id> key=<quoted or bare up to " :: "> :: text
		rest := strings.TrimSpace(strings.TrimPrefix(l, "known:"))
		parts := strings.SplitN(rest, " :: ", 2)
		head := parts[0]
		text := ""
		if len(parts) == 2 {
			text = parts[1]
		}
		if !strings.HasPrefix(head, "property=") {
			continue
		}
		sp := strings.SplitN(head, " key=", 2)
		if len(sp) != 2 {
			continue
		}
		out = append(out, known{prop: strings.TrimPrefix(sp[0], "property="), key: strings.TrimSpace(sp[1]), text: text})
	}
	return out
}

type shardResult struct {
	Property   string            `json:"property"`
	Scenarios  int               `json:"scenarios"`
	Executions int               `json:"executions"`
	Steps      int               `json:"steps"`
	Nodes      int               `json:"nodes"`
	MaxDepth   int               `json:"max_depth"`
	MaxBound   int               `json:"max_bound"`
	Capped     bool              `json:"capped"`
	Horizon    int               `json:"horizon_hits"`
	Deadlocks  int               `json:"quiescent_with_parked"`
	Accesses   int               `json:"accesses"`
	Outcomes   map[string]int    `json:"outcomes"`
	Violations []violation       `json:"violations"`
	Samples    []interface{}     `json:"samples"`
	Races      map[string]string `json:"races"`
	Extra      map[string]int    `json:"extra"`
	Infra      string            `json:"infra"`
	Rule       string            `json:"rule"`
	Assume     []string          `json:"assumptions"`
	WallS      float64           `json:"wall_s"`
}

type violation struct {
	Scenario interface{} `json:"scenario"`
	Choices  []int       `json:"choices"`
	Msg      string      `json:"msg"`
	Key      string      `json:"key"`
	Replay   string      `json:"replay"`
}

func main() {
	if len(os.Args) == 2 && os.Args[1] == "warm" {
		os.MkdirAll(filepath.Join(verif, "build"), 0o755)
		work, err := os.MkdirTemp(filepath.Join(verif, "build"), "warm-")
		if err != nil {
			infra("%v", err)
		}
		defer os.RemoveAll(work)
		for _, h := range []string{"ha", "hb"} {
			if _, err := os.Stat(filepath.Join(verif, "vx", h)); err == nil {
				build(filepath.Join(work), h)
			}
		}
		return
	}
	if len(os.Args) < 3 {
		fmt.Fprintln(os.Stderr, "usage: vx check <ID> [--tier quick|thorough] | vx replay <path>")
		os.Exit(2)
	}
	switch os.Args[1] {
	case "check":
		id := os.Args[2]
		tier := os.Getenv("VERIF_TIER")
		for i := 3; i < len(os.Args); i++ {
			if os.Args[i] == "--tier" && i+1 < len(os.Args) {
				tier = os.Args[i+1]
			}
		}
		if tier == "" {
			tier = "quick"
		}
		os.Exit(check(id, tier))
	case "replay":
		os.Exit(replay(os.Args[2]))
	default:
		fmt.Fprintln(os.Stderr, "unknown command")
		os.Exit(2)
	}
}

// build prepares the overlay from the current working tree and builds the harness binary.
func build(work string, harness string) string {
	vinstr := filepath.Join(verif, "bin/vinstr")
	if _, err := os.Stat(vinstr); err != nil {
		if out, err := run(filepath.Join(verif, "vx"), "go", "build", "-o", vinstr, "./cmd/vinstr"); err != nil {
			infra("building vinstr: %v\n%s", err, out)
		}
	}
	instr := filepath.Join(work, "instr")
	args := []string{"-repo", repo, "-out", instr, "-extra", filepath.Join(verif, "overlay_src")}
	if alt := os.Getenv("VX_REPO"); alt != "" {
		// testing only (mutants, seeded changes): read a scratch copy instead of /repo; registered checks never set this
		args = append(args, "-src", alt)
	}
	if harness != "ha" {
		args = append(args, "-noinstr")
	}
	if out, err := run(filepath.Join(verif, "vx"), vinstr, args...); err != nil {
		fmt.Fprint(os.Stderr, out)
		infra("instrumenting /repo failed: %v", err)
	}
	bin := filepath.Join(work, harness)
	if out, err := run(filepath.Join(verif, "vx"), "go", "build", "-overlay", filepath.Join(instr, "overlay.json"), "-o", bin, "./"+harness); err != nil {
		fmt.Fprint(os.Stderr, out)
		infra("building the harness against /repo's working tree failed: %v", err)
	}
	return bin
}

// raceSupplementRun (C16, thorough tier, not deciding): the real-socket stages of C03, C15, C17 and C19 - the
// library's client and service running freely over kernel sockets and the bridge - are executed once in a
// binary built with Go's race detector, which also sees memory that vinstr does not instrument (bufio, maps).
// A cooperative scheduler's hand-offs hide races from the detector, hence a separate free-running pass. Reports
// whose stacks contain a varlink frame are listed in the evidence; they are sampling and never decide.
func raceSupplementRun(work string) map[string]interface{} {
	ov := filepath.Join(work, "instr", "overlay.json")
	vinstr := filepath.Join(verif, "bin/vinstr")
	args := []string{"-repo", repo, "-out", filepath.Join(work, "instr"), "-extra", filepath.Join(verif, "overlay_src"), "-noinstr"}
	if alt := os.Getenv("VX_REPO"); alt != "" {
		args = append(args, "-src", alt)
	}
	if out, err := run(filepath.Join(verif, "vx"), vinstr, args...); err != nil {
		return map[string]interface{}{"error": "vinstr: " + tail(out, 300)}
	}
	bin := filepath.Join(work, "hbrace")
	if out, err := run(filepath.Join(verif, "vx"), "go", "build", "-race", "-overlay", ov, "-o", bin, "./hb"); err != nil {
		return map[string]interface{}{"error": "go build -race: " + tail(out, 300)}
	}
	res := map[string]interface{}{}
	var reports []string
	runs := 0
	for _, p := range []string{"C03", "C15", "C17", "C19"} {
		dir := filepath.Join(work, "race-"+p)
		os.MkdirAll(dir, 0o755)
		cmd := exec.Command(bin, "-tier", "quick", "-shard", "0", "-shards", "8", "-out", filepath.Join(dir, "out.json"), "-budget", "120s", p)
		cmd.Env = append(goEnv(), "GORACE=halt_on_error=0 log_path="+filepath.Join(dir, "race"))
		cmd.Dir = dir
		cmd.CombinedOutput()
		runs++
		files, _ := filepath.Glob(filepath.Join(dir, "race.*"))
		for _, f := range files {
			b, _ := os.ReadFile(f)
			for _, blk := range strings.Split(string(b), "==================") {
				if strings.Contains(blk, "DATA RACE") && strings.Contains(blk, "github.com/varlink/go/varlink") {
					var frames []string
					for _, l := range strings.Split(blk, "\n") {
						l = strings.TrimSpace(l)
						if strings.HasPrefix(l, "github.com/varlink/go/varlink") {
							frames = append(frames, strings.SplitN(l, "(", 2)[0])
						}
					}
					if len(frames) > 4 {
						frames = frames[:4]
					}
					reports = append(reports, strings.Join(frames, " <- "))
				}
			}
		}
	}
	sort.Strings(reports)
	uniq := reports[:0]
	for i, r := range reports {
		if i == 0 || r != reports[i-1] {
			uniq = append(uniq, r)
		}
	}
	res["stages_run"] = runs
	res["reports_with_varlink_frames"] = uniq
	for _, r := range uniq {
		fmt.Printf("NOTE (not deciding): Go race detector, free-running real-socket stage: %s\n", r)
	}
	return res
}

// libraryCrash: the output of a dead harness process shows a Go panic / fatal error whose stack has a frame of the
// library; returns that frame (function name), or "".
func libraryCrash(out string) string {
	if !strings.Contains(out, "\npanic:") && !strings.HasPrefix(out, "panic:") && !strings.Contains(out, "fatal error:") {
		return ""
	}
	for _, l := range strings.Split(out, "\n") {
		l = strings.TrimSpace(l)
		if strings.HasPrefix(l, "github.com/varlink/go/") {
			return strings.SplitN(l, "(", 2)[0]
		}
	}
	return ""
}

// buildGenerator builds the tree's interface generator (with the request-server file added by the overlay)
// and lists the compiler export data of package varlink and its dependencies, for the checks that
// type-check and build generated code (C07, C08). Returns the environment entries the harness needs.
func buildGenerator(work string) []string {
	ov := filepath.Join(work, "instr", "overlay.json")
	hg := filepath.Join(work, "hg")
	if out, err := run(filepath.Join(verif, "vx"), "go", "build", "-overlay", ov, "-o", hg, "github.com/varlink/go/cmd/varlink-go-interface-generator"); err != nil {
		fmt.Fprint(os.Stderr, out)
		infra("building the interface generator from /repo's working tree failed: %v", err)
	}
	out, err := run(filepath.Join(verif, "vx"), "go", "list", "-export", "-deps", "-overlay", ov, "-f", "{{if .Export}}{{.ImportPath}}={{.Export}}{{end}}", "github.com/varlink/go/varlink")
	if err != nil {
		fmt.Fprint(os.Stderr, out)
		infra("go list -export of package varlink failed: %v", err)
	}
	exp := filepath.Join(work, "exports.txt")
	if err := os.WriteFile(exp, []byte(out), 0o644); err != nil {
		infra("%v", err)
	}
	return []string{"VX_HG=" + hg, "VX_EXPORTS=" + exp, "VX_OVERLAY=" + ov}
}

func check(id, tier string) int {
	cfg, ok := propsCfg[id]
	if !ok {
		infra("unknown property %s", id)
	}
	t0 := time.Now()
	seed, _ := strconv.Atoi(os.Getenv("VERIF_SEED"))
	work, err := os.MkdirTemp(filepath.Join(verif, "build"), "run-"+id+"-")
	if err != nil {
		os.MkdirAll(filepath.Join(verif, "build"), 0o755)
		work, err = os.MkdirTemp(filepath.Join(verif, "build"), "run-"+id+"-")
		if err != nil {
			infra("%v", err)
		}
	}
	defer os.RemoveAll(work)
	bin := build(work, cfg.harness)
	var extraEnv []string
	if id == "C07" || id == "C08" {
		extraEnv = buildGenerator(work)
	}
	shards := cfg.shards
	if n := runtime.NumCPU(); n < shards {
		shards = n
	}
	budget := cfg.quickBudget
	if tier == "thorough" {
		budget = cfg.thoroughBudget
	}
	if b := os.Getenv("VX_BUDGET"); b != "" {
		if d, err := time.ParseDuration(b); err == nil {
			budget = d
		}
	}
	type job struct {
		bin      string
		idx, cnt int
	}
	var jobs []job
	for i := 0; i < shards; i++ {
		jobs = append(jobs, job{bin, i, shards})
	}
	if cfg.also != "" {
		bin2 := build(work, cfg.also)
		for i := 0; i < cfg.alsoShards; i++ {
			jobs = append(jobs, job{bin2, i, cfg.alsoShards})
		}
	}
	results := make([]*shardResult, len(jobs))
	errs := make([]string, len(jobs))
	crashes := make([]string, len(jobs))
	crashOut := make([]string, len(jobs))
	var wg sync.WaitGroup
	for i := range jobs {
		wg.Add(1)
		go func(i int) {
			defer wg.Done()
			bin, shards := jobs[i].bin, jobs[i].cnt
			outf := filepath.Join(work, fmt.Sprintf("out-%d.json", i))
			// the order in which shards take scenarios is permuted by the seed; the set explored is not
			cmd := exec.Command(bin, "-tier", tier, "-shard", strconv.Itoa((jobs[i].idx+seed)%shards), "-shards", strconv.Itoa(shards),
				"-out", outf, "-queue", filepath.Join(work, "queue"), "-budget", budget.String(), "-replaydir", filepath.Join(verif, "replays"), id)
			cmd.Env = append(append(goEnv(), "GOMAXPROCS=2"), extraEnv...)
			cmd.Dir = work
			out, err := cmd.CombinedOutput()
			if err != nil {
				errs[i] = fmt.Sprintf("shard %d: %v\n%s", i, err, tail(string(out), 4000))
				if crash := libraryCrash(string(out)); crash != "" {
					// the harness process died in a goroutine of the code under test (a panic the harness cannot
					// recover): that is a verdict about the library, not an infrastructure failure
					crashes[i] = crash
					crashOut[i] = tail(string(out), 6000)
					errs[i] = ""
				}
			}
			b, rerr := os.ReadFile(outf)
			if rerr != nil {
				if errs[i] == "" && crashes[i] == "" {
					errs[i] = fmt.Sprintf("shard %d wrote no result: %s", i, tail(string(out), 2000))
				}
				return
			}
			var r shardResult
			if jerr := json.Unmarshal(b, &r); jerr != nil {
				errs[i] = fmt.Sprintf("shard %d: bad result: %v", i, jerr)
				return
			}
			results[i] = &r
		}(i)
	}
	wg.Wait()
	for _, e := range errs {
		if e != "" {
			infra("%s", e)
		}
	}
	var raceSupplement map[string]interface{}
	if id == "C16" && tier == "thorough" {
		raceSupplement = raceSupplementRun(work)
	}
	// merge
	tot := shardResult{Outcomes: map[string]int{}, Races: map[string]string{}, Extra: map[string]int{}}
	selfcheckInfra := ""
	for i, c := range crashes {
		if c == "" {
			continue
		}
		os.MkdirAll(filepath.Join(verif, "replays"), 0o755)
		path := filepath.Join(verif, "replays", fmt.Sprintf("%s-crash-%d.json", id, i))
		b, _ := json.MarshalIndent(map[string]interface{}{"property": id, "key": "symptom=process-crash " + c, "msg": "a harness process died with a panic in a goroutine of the code under test", "input": map[string]string{"stderr": crashOut[i]}}, "", " ")
		os.WriteFile(path, b, 0o644)
		tot.Violations = append(tot.Violations, violation{Scenario: "process crash (see the replay file for the stack)", Msg: "a harness process died with a panic or fatal error in a goroutine of the code under test: " + c, Key: "symptom=process-crash " + c, Replay: path})
		tot.Capped = true
	}
	for _, r := range results {
		if r == nil {
			continue
		}
		if r.Infra != "" {
			if strings.HasPrefix(r.Infra, "NONDETERMINISM-SELFCHECK") {
				// decided after the merge: an infrastructure error only if no shard reports a violation
				selfcheckInfra = r.Infra
			} else {
				infra("%s", r.Infra)
			}
		}
		tot.Scenarios += r.Scenarios
		tot.Executions += r.Executions
		tot.Steps += r.Steps
		tot.Nodes += r.Nodes
		tot.Accesses += r.Accesses
		tot.Horizon += r.Horizon
		tot.Deadlocks += r.Deadlocks
		if r.MaxDepth > tot.MaxDepth {
			tot.MaxDepth = r.MaxDepth
		}
		if r.MaxBound > tot.MaxBound {
			tot.MaxBound = r.MaxBound
		}
		tot.Capped = tot.Capped || r.Capped
		for k, v := range r.Outcomes {
			tot.Outcomes[k] += v
		}
		for k, v := range r.Races {
			tot.Races[k] = v
		}
		for k, v := range r.Extra {
			tot.Extra[k] += v
		}
		tot.Violations = append(tot.Violations, r.Violations...)
		if len(tot.Samples) < 4 {
			tot.Samples = append(tot.Samples, r.Samples...)
		}
		if r.Rule != "" {
			tot.Rule = r.Rule
		}
		if len(r.Assume) > 0 {
			tot.Assume = r.Assume
		}
	}
	if selfcheckInfra != "" {
		if len(tot.Violations) == 0 {
			infra("%s", selfcheckInfra)
		}
		fmt.Fprintf(os.Stderr, "note: %s (violations are reported, each validated by replays of its own schedule: the code under test makes choices of its own)\n", selfcheckInfra)
	}
	if len(tot.Samples) > 6 {
		tot.Samples = tot.Samples[:6]
	}
	// classify violations against the committed known-findings file
	kn := loadKnown()
	sort.Slice(tot.Violations, func(i, j int) bool { return tot.Violations[i].Key < tot.Violations[j].Key })
	printedKnown := map[string]bool{}
	var knownHit []string
	newViol := 0
	seenNew := map[string]bool{}
	for _, v := range tot.Violations {
		matched := false
		for _, k := range kn {
			if k.prop == id && k.key == v.Key {
				matched = true
				if !printedKnown[k.key] {
					printedKnown[k.key] = true
					fmt.Printf("KNOWN-FINDING: property=%s %s [key=%s]\n", id, k.text, k.key)
					knownHit = append(knownHit, k.key)
				}
			}
		}
		if !matched {
			if seenNew[v.Key] {
				continue
			}
			seenNew[v.Key] = true
			newViol++
			fmt.Printf("VIOLATION property=%s replay=%s\n", id, v.Replay)
			fmt.Printf("  key: %s\n  what: %s\n  scenario: %s\n", v.Key, v.Msg, jstr(v.Scenario))
		}
	}
	wall := time.Since(t0).Seconds()
	// distinct non-trivial cases: for schedule exploration the distinct final observations; for batched or
	// enumerated inputs the number of distinct inputs judged (counted by the harness)
	distinct := len(tot.Outcomes)
	if n := tot.Extra["distinct_inputs"]; n > distinct {
		distinct = n
	}
	if n := tot.Extra["input_cases_judged"]; n > distinct {
		distinct = n
	}
	ev := map[string]interface{}{
		"property_id": id,
		"tier":        tier,
		"seed":        seed,
		"level":       "model_checking",
		"coverage": map[string]interface{}{
			"states":                        max1(tot.Nodes),
			"transitions":                   max1(tot.Steps),
			"traces_validated_against_impl": tot.Executions,
			"samples":                       tot.Samples,
			"evaluations":                   tot.Executions,
			"distinct_nontrivial":           distinct,
			"rule":                          tot.Rule,
			"exhaustive":                    !tot.Capped && tot.Horizon == 0,
			"scenarios":                     tot.Scenarios,
			"max_deviation_bound":           tot.MaxBound,
			"max_choice_depth":              tot.MaxDepth,
			"distinct_outcomes":             len(tot.Outcomes),
			"outcome_counts":                topOutcomes(tot.Outcomes, 60),
			"horizon_hits":                  tot.Horizon,
			"capped":                        tot.Capped,
			"instrumented_accesses":         tot.Accesses,
			"hb_races_observed":             sortedKeys(tot.Races),
			"known_findings_matched":        knownHit,
			"extra":                         tot.Extra,
			"shards":                        shards,
			"supplement_go_race_detector_free_running": raceSupplement,
		},
		"assumptions": tot.Assume,
		"wall_s":      wall,
		"violations":  newViol,
	}
	evdir := filepath.Join(verif, "evidence")
	if alt := os.Getenv("VX_EVIDENCE_DIR"); alt != "" {
		evdir = alt
	}
	os.MkdirAll(evdir, 0o755)
	eb, _ := json.MarshalIndent(ev, "", " ")
	if err := os.WriteFile(filepath.Join(evdir, id+".json"), eb, 0o644); err != nil {
		infra("%v", err)
	}
	fmt.Printf("%s %s: scenarios=%d executions=%d steps=%d choice-nodes=%d distinct-outcomes=%d bound<=%d exhaustive=%v known=%d violations=%d wall=%.1fs\n",
		id, tier, tot.Scenarios, tot.Executions, tot.Steps, tot.Nodes, len(tot.Outcomes), tot.MaxBound, !tot.Capped && tot.Horizon == 0, len(knownHit), newViol, wall)
	if newViol > 0 {
		return 1
	}
	return 0
}

// topOutcomes lists the most frequent observed outcome classes (all of them when there are few).
func topOutcomes(m map[string]int, n int) map[string]int {
	type kv struct {
		k string
		v int
	}
	var l []kv
	for k, v := range m {
		l = append(l, kv{k, v})
	}
	sort.Slice(l, func(i, j int) bool { return l[i].v > l[j].v || (l[i].v == l[j].v && l[i].k < l[j].k) })
	out := map[string]int{}
	for i, e := range l {
		if i >= n {
			break
		}
		k := e.k
		if len(k) > 160 {
			k = k[:160]
		}
		out[k] = e.v
	}
	return out
}

func max1(n int) int {
	if n < 1 {
		return 1
	}
	return n
}

func sortedKeys(m map[string]string) []string {
	var out []string
	for k := range m {
		out = append(out, k)
	}
	sort.Strings(out)
	return out
}

func jstr(v interface{}) string {
	b, _ := json.Marshal(v)
	return string(b)
}

func tail(s string, n int) string {
	if len(s) > n {
		return s[len(s)-n:]
	}
	return s
}

func replay(path string) int {
	b, err := os.ReadFile(path)
	if err != nil {
		infra("%v", err)
	}
	var r struct {
		Property string `json:"property"`
	}
	if err := json.Unmarshal(b, &r); err != nil {
		infra("%v", err)
	}
	cfg, ok := propsCfg[r.Property]
	if !ok {
		infra("unknown property %q in replay file", r.Property)
	}
	work, err := os.MkdirTemp(filepath.Join(verif, "build"), "replay-")
	if err != nil {
		infra("%v", err)
	}
	defer os.RemoveAll(work)
	bin := build(work, cfg.harness)
	var extraEnv []string
	if r.Property == "C07" || r.Property == "C08" {
		extraEnv = buildGenerator(work)
	}
	for _, tier := range []string{"quick", "thorough"} {
		cmd := exec.Command(bin, "-tier", tier, "-replay", path, r.Property)
		cmd.Env = append(goEnv(), extraEnv...)
		cmd.Dir = work
		out, err := cmd.CombinedOutput()
		if ee, ok := err.(*exec.ExitError); ok && ee.ExitCode() == 2 && tier == "quick" {
			continue // scenario belongs to the other tier
		}
		fmt.Print(string(out))
		if ee, ok := err.(*exec.ExitError); ok {
			return ee.ExitCode()
		}
		return 0
	}
	return 2
}
