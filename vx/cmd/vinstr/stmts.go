package main

import (
	"go/ast"
	"go/parser"
	"go/token"
	"go/types"
	"strconv"
)

func (r *rw) stmts(list []ast.Stmt) []ast.Stmt {
	var out []ast.Stmt
	for _, s := range list {
		out = append(out, r.stmt(s)...)
	}
	return out
}

func (r *rw) block(b *ast.BlockStmt) *ast.BlockStmt {
	if b != nil {
		b.List = r.stmts(b.List)
	}
	return b
}

func one(pre []ast.Stmt, s ast.Stmt) []ast.Stmt { return append(pre, s) }

// recvOf returns the receive expression if e is `<-ch` (possibly parenthesised).
func recvOf(e ast.Expr) *ast.UnaryExpr {
	for {
		if p, ok := e.(*ast.ParenExpr); ok {
			e = p.X
			continue
		}
		break
	}
	if u, ok := e.(*ast.UnaryExpr); ok && u.Op == token.ARROW {
		return u
	}
	return nil
}

func (r *rw) allowRecv(u *ast.UnaryExpr) {
	if r.recvAllowed == nil {
		r.recvAllowed = map[*ast.UnaryExpr]bool{}
	}
	r.recvAllowed[u] = true
}

func (r *rw) recvPre(u *ast.UnaryExpr) ast.Stmt {
	if !sideEffectFree(u.X) {
		unsupported(r.fset, u.Pos(), "receive from a channel expression with side effects")
	}
	r.allowRecv(u)
	return &ast.ExprStmt{X: r.call("ChanRecv", u.X)}
}

func (r *rw) stmt(s ast.Stmt) []ast.Stmt {
	switch x := s.(type) {
	case nil:
		return nil
	case *ast.BlockStmt:
		r.block(x)
		return []ast.Stmt{x}
	case *ast.LabeledStmt:
		in := r.stmt(x.Stmt)
		x.Stmt = in[len(in)-1]
		return append(in[:len(in)-1:len(in)-1], x)
	case *ast.IfStmt:
		pre := r.accesses(x.Init, x.Cond)
		if x.Init != nil {
			pre = append(r.simplePre(x.Init), pre...)
		}
		r.block(x.Body)
		if x.Else != nil {
			el := r.stmt(x.Else)
			if len(el) == 1 {
				x.Else = el[0]
			} else {
				x.Else = &ast.BlockStmt{List: el}
			}
		}
		return one(pre, x)
	case *ast.ForStmt:
		var pre []ast.Stmt
		if x.Init != nil {
			pre = append(r.simplePre(x.Init), r.accesses(x.Init)...)
		}
		if x.Post != nil {
			if len(r.accesses(x.Post)) > 0 {
				unsupported(r.fset, x.Post.Pos(), "tracked access in a for-post statement")
			}
		}
		if x.Cond != nil {
			x.Cond = r.wrapReads(x.Cond)
		}
		r.block(x.Body)
		return one(pre, x)
	case *ast.RangeStmt:
		if t := r.info.TypeOf(x.X); t != nil {
			if _, ok := t.Underlying().(*types.Chan); ok {
				// for v := range ch { body }  ==>  for { vsched.ChanRecv(ch); v, ok := <-ch; if !ok { break }; body }
				if !sideEffectFree(x.X) {
					unsupported(r.fset, x.Pos(), "range over a channel expression with side effects")
				}
				okName := r.newTmp("ok")
				recv := &ast.UnaryExpr{Op: token.ARROW, X: x.X}
				r.allowRecv(recv)
				var lhs ast.Expr = ident("_")
				tok := token.DEFINE
				if x.Key != nil {
					lhs = x.Key
					if x.Tok == token.ASSIGN {
						tok = token.ASSIGN
					}
				}
				var assign ast.Stmt
				if tok == token.ASSIGN {
					// the loop variable exists already: declare ok, then assign both
					assign = &ast.BlockStmt{List: []ast.Stmt{}}
					assign = &ast.AssignStmt{Lhs: []ast.Expr{lhs, ident(okName)}, Tok: token.ASSIGN, Rhs: []ast.Expr{recv}}
				} else {
					assign = &ast.AssignStmt{Lhs: []ast.Expr{lhs, ident(okName)}, Tok: token.DEFINE, Rhs: []ast.Expr{recv}}
				}
				r.block(x.Body)
				body := []ast.Stmt{
					&ast.ExprStmt{X: r.call("ChanRecv", x.X)},
				}
				if tok == token.ASSIGN {
					body = append(body, &ast.DeclStmt{Decl: &ast.GenDecl{Tok: token.VAR, Specs: []ast.Spec{&ast.ValueSpec{Names: []*ast.Ident{ident(okName)}, Type: ident("bool")}}}})
				}
				body = append(body, assign,
					&ast.IfStmt{Cond: &ast.UnaryExpr{Op: token.NOT, X: ident(okName)}, Body: &ast.BlockStmt{List: []ast.Stmt{&ast.BranchStmt{Tok: token.BREAK}}}})
				body = append(body, x.Body.List...)
				return []ast.Stmt{&ast.ForStmt{Body: &ast.BlockStmt{List: body}}}
			}
		}
		pre := r.accesses(x.X)
		if x.Tok == token.ASSIGN {
			pre = append(pre, r.accesses(x.Key, x.Value)...)
		}
		r.block(x.Body)
		return one(pre, x)
	case *ast.SwitchStmt:
		var pre []ast.Stmt
		if x.Init != nil {
			pre = append(r.simplePre(x.Init), r.accesses(x.Init)...)
		}
		pre = append(pre, r.accesses(x.Tag)...)
		for _, c := range x.Body.List {
			cc := c.(*ast.CaseClause)
			for _, e := range cc.List {
				pre = append(pre, r.accesses(e)...)
			}
			cc.Body = r.stmts(cc.Body)
		}
		return one(pre, x)
	case *ast.TypeSwitchStmt:
		var pre []ast.Stmt
		if x.Init != nil {
			pre = append(r.simplePre(x.Init), r.accesses(x.Init)...)
		}
		pre = append(pre, r.accesses(x.Assign)...)
		for _, c := range x.Body.List {
			cc := c.(*ast.CaseClause)
			cc.Body = r.stmts(cc.Body)
		}
		return one(pre, x)
	case *ast.SelectStmt:
		return r.selectStmt(x)
	case *ast.GoStmt:
		return r.goStmt(x)
	case *ast.SendStmt:
		if !sideEffectFree(x.Chan) {
			unsupported(r.fset, x.Pos(), "send on a channel expression with side effects")
		}
		pre := r.accesses(x.Chan, x.Value)
		pre = append(pre, &ast.ExprStmt{X: r.call("ChanSend", x.Chan)})
		return one(pre, x)
	case *ast.CommClause:
		unsupported(r.fset, x.Pos(), "stray comm clause")
	case *ast.DeferStmt:
		pre := r.accesses(x.Call)
		if id, ok := x.Call.Fun.(*ast.Ident); ok && id.Name == "close" && len(x.Call.Args) == 1 && sideEffectFree(x.Call.Args[0]) {
			if _, isBuiltin := r.info.Uses[id].(*types.Builtin); isBuiltin {
				// defer close(ch)  ==>  defer func() { vsched.ChanClose(ch); close(ch) }()
				x.Call = &ast.CallExpr{Fun: &ast.FuncLit{Type: &ast.FuncType{Params: &ast.FieldList{}}, Body: &ast.BlockStmt{List: []ast.Stmt{
					&ast.ExprStmt{X: r.call("ChanClose", x.Call.Args[0])},
					&ast.ExprStmt{X: &ast.CallExpr{Fun: ident("close"), Args: x.Call.Args}},
				}}}}
			}
		}
		return one(pre, x)
	default:
		pre := r.simplePre(s)
		pre = append(pre, r.accesses(s)...)
		if es, ok := s.(*ast.ExprStmt); ok {
			if call, ok := es.X.(*ast.CallExpr); ok {
				if id, ok := call.Fun.(*ast.Ident); ok && id.Name == "close" && len(call.Args) == 1 {
					if _, isBuiltin := r.info.Uses[id].(*types.Builtin); isBuiltin {
						pre = append(pre, &ast.ExprStmt{X: r.call("ChanClose", call.Args[0])})
					}
				}
			}
		}
		return one(pre, s)
	}
	return []ast.Stmt{s}
}

// simplePre handles the statement forms in which a channel receive may appear:
// `<-ch`, `x := <-ch`, `x = <-ch`, `x, ok := <-ch`, `var x = <-ch`.
func (r *rw) simplePre(s ast.Stmt) []ast.Stmt {
	switch x := s.(type) {
	case *ast.ExprStmt:
		if u := recvOf(x.X); u != nil {
			return []ast.Stmt{r.recvPre(u)}
		}
	case *ast.AssignStmt:
		if len(x.Rhs) == 1 {
			if u := recvOf(x.Rhs[0]); u != nil {
				return []ast.Stmt{r.recvPre(u)}
			}
		}
	case *ast.DeclStmt:
		if gd, ok := x.Decl.(*ast.GenDecl); ok {
			var pre []ast.Stmt
			for _, sp := range gd.Specs {
				if vs, ok := sp.(*ast.ValueSpec); ok && len(vs.Values) == 1 {
					if u := recvOf(vs.Values[0]); u != nil {
						pre = append(pre, r.recvPre(u))
					}
				}
			}
			return pre
		}
	}
	return nil
}

// wrapReads replaces tracked reads inside a loop condition by
// func() T { vsched.Access(...); return X.f }() so that the event precedes every evaluation.
func (r *rw) wrapReads(e ast.Expr) ast.Expr {
	var rewrite func(e ast.Expr) ast.Expr
	rewrite = func(e ast.Expr) ast.Expr {
		switch x := e.(type) {
		case *ast.ParenExpr:
			x.X = rewrite(x.X)
		case *ast.UnaryExpr:
			if x.Op == token.ARROW {
				unsupported(r.fset, x.Pos(), "channel receive in a loop condition")
			}
			x.X = rewrite(x.X)
		case *ast.BinaryExpr:
			x.X = rewrite(x.X)
			x.Y = rewrite(x.Y)
		case *ast.CallExpr:
			for i := range x.Args {
				x.Args[i] = rewrite(x.Args[i])
			}
			pre := r.accesses(x.Fun)
			if len(pre) > 0 {
				unsupported(r.fset, x.Pos(), "tracked access in the callee of a loop condition")
			}
		case *ast.SelectorExpr, *ast.Ident:
			pre := r.accesses(x)
			if len(pre) == 0 {
				return e
			}
			t := r.info.TypeOf(x)
			if t == nil {
				unsupported(r.fset, x.Pos(), "untyped tracked access in a loop condition")
			}
			ts := types.TypeString(t, func(p *types.Package) string {
				if p == r.pkg {
					return ""
				}
				return p.Name()
			})
			texpr, err := parseTypeExpr(ts)
			if err != nil {
				unsupported(r.fset, x.Pos(), "cannot spell type "+ts)
			}
			body := append(pre, &ast.ReturnStmt{Results: []ast.Expr{x}})
			return &ast.CallExpr{Fun: &ast.FuncLit{
				Type: &ast.FuncType{Params: &ast.FieldList{}, Results: &ast.FieldList{List: []*ast.Field{{Type: texpr}}}},
				Body: &ast.BlockStmt{List: body},
			}}
		default:
			pre := r.accesses(x)
			if len(pre) > 0 {
				unsupported(r.fset, x.Pos(), "tracked access in an unsupported loop-condition form")
			}
		}
		return e
	}
	return rewrite(e)
}

func (r *rw) goStmt(g *ast.GoStmt) []ast.Stmt {
	call := g.Call
	pre := r.accesses(call.Fun)
	for _, a := range call.Args {
		pre = append(pre, r.accesses(a)...)
	}
	site := strLit(r.site(g.Pos()))
	if fl, ok := call.Fun.(*ast.FuncLit); ok && len(call.Args) == 0 {
		return one(pre, &ast.ExprStmt{X: r.call("Go", site, fl)})
	}
	// bind callee and arguments now, run them in the new thread
	var lhs []ast.Expr
	var rhs []ast.Expr
	fn := r.newTmp("f")
	lhs = append(lhs, ident(fn))
	rhs = append(rhs, call.Fun)
	var args []ast.Expr
	for _, a := range call.Args {
		if tv, ok := r.info.Types[a]; ok && (tv.IsNil() || tv.Value != nil) {
			// nil and constants have no evaluation to pin down (and no type of their own to give a temporary)
			args = append(args, a)
			continue
		}
		n := r.newTmp("a")
		lhs = append(lhs, ident(n))
		rhs = append(rhs, a)
		args = append(args, ident(n))
	}
	inner := &ast.CallExpr{Fun: ident(fn), Args: args, Ellipsis: call.Ellipsis}
	if call.Ellipsis != token.NoPos {
		inner.Ellipsis = 1
	}
	blk := &ast.BlockStmt{List: []ast.Stmt{
		&ast.AssignStmt{Lhs: lhs, Tok: token.DEFINE, Rhs: rhs},
		&ast.ExprStmt{X: r.call("Go", site, &ast.FuncLit{
			Type: &ast.FuncType{Params: &ast.FieldList{}},
			Body: &ast.BlockStmt{List: []ast.Stmt{&ast.ExprStmt{X: inner}}},
		})},
	}}
	return one(pre, blk)
}

func (r *rw) selectStmt(sel *ast.SelectStmt) []ast.Stmt {
	var setup []ast.Stmt
	var caseArgs []ast.Expr
	var clauses []ast.Stmt
	hasDefault := false
	idx := 0
	for _, c := range sel.Body.List {
		cc := c.(*ast.CommClause)
		body := r.stmts(cc.Body)
		if cc.Comm == nil {
			hasDefault = true
			clauses = append(clauses, &ast.CaseClause{List: nil, Body: body})
			continue
		}
		var comm ast.Stmt
		switch cm := cc.Comm.(type) {
		case *ast.SendStmt:
			ch := r.newTmp("c")
			v := r.newTmp("v")
			setup = append(setup, r.accesses(cm.Chan, cm.Value)...)
			setup = append(setup, &ast.AssignStmt{Lhs: []ast.Expr{ident(ch), ident(v)}, Tok: token.DEFINE, Rhs: []ast.Expr{cm.Chan, cm.Value}})
			caseArgs = append(caseArgs, r.call("SelSend", ident(ch)))
			comm = &ast.SendStmt{Chan: ident(ch), Value: ident(v)}
		case *ast.ExprStmt:
			u := recvOf(cm.X)
			if u == nil {
				unsupported(r.fset, cm.Pos(), "select case that is not a channel operation")
			}
			ch := r.newTmp("c")
			setup = append(setup, r.accesses(u.X)...)
			setup = append(setup, &ast.AssignStmt{Lhs: []ast.Expr{ident(ch)}, Tok: token.DEFINE, Rhs: []ast.Expr{u.X}})
			caseArgs = append(caseArgs, r.call("SelRecv", ident(ch)))
			comm = &ast.ExprStmt{X: &ast.UnaryExpr{Op: token.ARROW, X: ident(ch)}}
		case *ast.AssignStmt:
			if len(cm.Rhs) != 1 || recvOf(cm.Rhs[0]) == nil {
				unsupported(r.fset, cm.Pos(), "select case that is not a channel operation")
			}
			u := recvOf(cm.Rhs[0])
			ch := r.newTmp("c")
			setup = append(setup, r.accesses(u.X)...)
			for _, l := range cm.Lhs {
				setup = append(setup, r.accesses(l)...)
			}
			setup = append(setup, &ast.AssignStmt{Lhs: []ast.Expr{ident(ch)}, Tok: token.DEFINE, Rhs: []ast.Expr{u.X}})
			caseArgs = append(caseArgs, r.call("SelRecv", ident(ch)))
			comm = &ast.AssignStmt{Lhs: cm.Lhs, Tok: cm.Tok, Rhs: []ast.Expr{&ast.UnaryExpr{Op: token.ARROW, X: ident(ch)}}}
		default:
			unsupported(r.fset, cc.Pos(), "unknown select comm form")
		}
		clauses = append(clauses, &ast.CaseClause{
			List: []ast.Expr{&ast.BasicLit{Kind: token.INT, Value: itoa(idx)}},
			Body: append([]ast.Stmt{comm}, body...),
		})
		idx++
	}
	if !hasDefault {
		clauses = append(clauses, &ast.CaseClause{List: nil, Body: []ast.Stmt{
			&ast.ExprStmt{X: &ast.CallExpr{Fun: ident("panic"), Args: []ast.Expr{strLit("vsched: select returned no case")}}},
		}})
	}
	args := append([]ast.Expr{boolLit(hasDefault)}, caseArgs...)
	sw := &ast.SwitchStmt{Tag: r.call("Select", args...), Body: &ast.BlockStmt{List: clauses}}
	return []ast.Stmt{&ast.BlockStmt{List: append(setup, sw)}}
}

func itoa(i int) string { return strconv.Itoa(i) }

func parseTypeExpr(s string) (ast.Expr, error) { return parser.ParseExpr(s) }
