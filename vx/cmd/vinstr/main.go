// vinstr: source-to-source instrumenter producing a `go build -overlay` file that
// binds the controlled scheduler (vx/vsched), the sync shims (vx/vsync) and the
// happens-before race monitor to the *current working tree* of /repo.
//
// usage: vinstr -repo /repo -out /verif/build/instr [-extra dir] [-noinstr]
//
// Rewrites (packages varlink and varlink/internal/ctxio, files selected by go/build):
//
//	import "sync"           -> sync "vx/vsync"
//	import "sync/atomic"    -> atomic "vx/vatomic"
//	go f(a, b)              -> { vxf, vxa0, vxa1 := f, a, b; vsched.Go(site, func(){ vxf(vxa0, vxa1) }) }
//	ch <- v                 -> vsched.ChanSend(ch); ch <- v
//	x := <-ch               -> vsched.ChanRecv(ch); x := <-ch
//	select {...}            -> switch vsched.Select(hasDefault, cases...) {...}
//	X.f (field of a struct type declared in the package, ever written or
//	     mutated through a pointer) -> preceding vsched.Access(X, "f", write, site)
//
// Constructs it cannot model make it exit 2 with INSTRUMENTATION-UNSUPPORTED.
package main

import (
	"bytes"
	"crypto/sha256"
	"encoding/hex"
	"encoding/json"
	"flag"
	"fmt"
	"go/ast"
	"go/build"
	"go/format"
	"go/importer"
	"go/parser"
	"go/token"
	"go/types"
	"os"
	"path/filepath"
	"sort"
	"strconv"
	"strings"
)

const version = "vinstr-13"

var (
	repo    = flag.String("repo", "/repo", "repository root")
	src     = flag.String("src", "", "tree to read instead of -repo (testing a scratch copy): files are read there and overlaid onto -repo's paths")
	out     = flag.String("out", "", "output directory")
	extra   = flag.String("extra", "", "directory tree of static overlay files (relative paths mirror the repo)")
	noinstr = flag.Bool("noinstr", false, "only emit the static overlay files (engine B builds)")
)

func fatal(code int, format string, a ...interface{}) {
	fmt.Fprintf(os.Stderr, format+"\n", a...)
	os.Exit(code)
}

func unsupported(fset *token.FileSet, pos token.Pos, what string) {
	fatal(2, "INSTRUMENTATION-UNSUPPORTED %s: %s", fset.Position(pos), what)
}

type pkgJob struct {
	dir   string
	path  string
	files []string
}

func main() {
	flag.Parse()
	if *out == "" {
		fatal(2, "vinstr: -out required")
	}
	*out, _ = filepath.Abs(*out)
	if *extra != "" {
		*extra, _ = filepath.Abs(*extra)
	}
	if *src == "" {
		*src = *repo
	}
	*src, _ = filepath.Abs(*src)
	pkgs := []pkgJob{
		{dir: filepath.Join(*src, "varlink/internal/ctxio"), path: "github.com/varlink/go/varlink/internal/ctxio"},
		{dir: filepath.Join(*src, "varlink"), path: "github.com/varlink/go/varlink"},
	}
	h := sha256.New()
	h.Write([]byte(version))
	fmt.Fprintf(h, "noinstr=%v\n", *noinstr)
	for i := range pkgs {
		bp, err := build.Default.ImportDir(pkgs[i].dir, 0)
		if err != nil {
			fatal(2, "vinstr: %v", err)
		}
		for _, f := range bp.GoFiles {
			p := filepath.Join(pkgs[i].dir, f)
			pkgs[i].files = append(pkgs[i].files, p)
			b, err := os.ReadFile(p)
			if err != nil {
				fatal(2, "vinstr: %v", err)
			}
			fmt.Fprintf(h, "%s %d\n", p, len(b))
			h.Write(b)
		}
	}
	var extras []string
	if *extra != "" {
		filepath.Walk(*extra, func(p string, fi os.FileInfo, err error) error {
			if err == nil && !fi.IsDir() && strings.HasSuffix(p, ".go") {
				extras = append(extras, p)
				b, _ := os.ReadFile(p)
				fmt.Fprintf(h, "%s %d\n", p, len(b))
				h.Write(b)
			}
			return nil
		})
	}
	sum := hex.EncodeToString(h.Sum(nil))
	stamp := filepath.Join(*out, "stamp")
	if b, err := os.ReadFile(stamp); err == nil && string(b) == sum {
		return // up to date
	}
	os.RemoveAll(*out)
	if err := os.MkdirAll(*out, 0o755); err != nil {
		fatal(2, "vinstr: %v", err)
	}
	overlay := map[string]string{}
	for _, e := range extras {
		rel, _ := filepath.Rel(*extra, e)
		overlay[filepath.Join(*repo, rel)] = e
	}
	if *src != *repo {
		// a scratch copy is checked: every Go file of the library and the generator is overlaid onto /repo's path
		for _, sub := range []string{"varlink", "cmd/varlink-go-interface-generator"} {
			filepath.Walk(filepath.Join(*src, sub), func(p string, fi os.FileInfo, err error) error {
				if err == nil && !fi.IsDir() && strings.HasSuffix(p, ".go") && !strings.HasSuffix(p, "_test.go") {
					rel, _ := filepath.Rel(*src, p)
					if _, ok := overlay[filepath.Join(*repo, rel)]; !ok {
						overlay[filepath.Join(*repo, rel)] = p
					}
				}
				return nil
			})
		}
	}
	if !*noinstr {
		fset := token.NewFileSet()
		cwd, _ := os.Getwd()
		os.Chdir(*src)
		imp := importer.ForCompiler(fset, "source", nil)
		for _, pj := range pkgs {
			instrumentPackage(fset, imp, pj, overlay)
		}
		os.Chdir(cwd)
	}
	ob, _ := json.MarshalIndent(map[string]interface{}{"Replace": overlay}, "", " ")
	if err := os.WriteFile(filepath.Join(*out, "overlay.json"), ob, 0o644); err != nil {
		fatal(2, "vinstr: %v", err)
	}
	os.WriteFile(stamp, []byte(sum), 0o644)
}

type fieldKey struct {
	typ   string
	field string
}

type rw struct {
	fset           *token.FileSet
	info           *types.Info
	shared         map[types.Object]bool // function-level variables that a goroutine started in the function captures
	pkg            *types.Package
	file           *ast.File
	fname          string
	written        map[fieldKey]bool // fields (and "f*" pointees, and package vars as {"", name}) ever written
	used           bool              // file needs the vsched import
	tmp            int
	prepass        bool
	recvAllowed    map[*ast.UnaryExpr]bool
	curFunc        string
	madeUnbuffered map[*ast.CallExpr]bool
	replaceExpr    map[ast.Expr]ast.Expr
}

func instrumentPackage(fset *token.FileSet, imp types.Importer, pj pkgJob, overlay map[string]string) {
	var files []*ast.File
	for _, f := range pj.files {
		af, err := parser.ParseFile(fset, f, nil, 0)
		if err != nil {
			fatal(2, "vinstr: parse: %v", err)
		}
		files = append(files, af)
	}
	var terrs []string
	conf := types.Config{Importer: imp, Error: func(err error) { terrs = append(terrs, err.Error()) }}
	info := &types.Info{
		Selections: map[*ast.SelectorExpr]*types.Selection{},
		Types:      map[ast.Expr]types.TypeAndValue{},
		Uses:       map[*ast.Ident]types.Object{},
		Defs:       map[*ast.Ident]types.Object{},
		Scopes:     map[ast.Node]*types.Scope{},
	}
	pkg, _ := conf.Check(pj.path, fset, files, info)
	if len(terrs) > 0 {
		fatal(2, "vinstr: type errors in %s (the tree does not build?):\n%s", pj.path, strings.Join(terrs, "\n"))
	}
	written := map[fieldKey]bool{}
	// pre-pass: which fields / package variables are ever written after construction
	for i, af := range files {
		r := &rw{fset: fset, info: info, pkg: pkg, file: af, fname: filepath.Base(pj.files[i]), written: written, prepass: true}
		ast.Inspect(af, func(n ast.Node) bool {
			if fd, ok := n.(*ast.FuncDecl); ok && fd.Body != nil {
				r.scanWrites(fd.Body)
				return false
			}
			return true
		})
	}
	shared := sharedLocals(files, info)
	for i, af := range files {
		r := &rw{fset: fset, info: info, pkg: pkg, file: af, fname: filepath.Base(pj.files[i]), written: written, shared: shared}
		for _, d := range af.Decls {
			if fd, ok := d.(*ast.FuncDecl); ok && fd.Body != nil {
				r.curFunc = fd.Name.Name
				fd.Body.List = r.stmts(fd.Body.List)
				if pkg.Name() == "varlink" && fd.Recv == nil && fd.Name.Name == "listen" {
					r.listenHook(fd)
				}
				if pkg.Name() == "varlink" && fd.Recv == nil && fd.Name.Name == "activationListener" {
					r.activationHook(fd)
				}
			}
		}
		if r.rewriteTime(af) {
			r.used = true
		}
		if r.rewriteUnixListener(af) {
			r.used = true
		}
		if reset := globalResetInit(af); reset != nil {
			af.Decls = append(af.Decls, reset)
			r.used = true
		}
		changedImport := false
		for _, is := range af.Imports {
			p, _ := strconv.Unquote(is.Path.Value)
			switch p {
			case "sync":
				is.Path.Value = strconv.Quote("vx/vsync")
				if is.Name == nil {
					is.Name = ast.NewIdent("sync")
				}
				changedImport = true
			case "sync/atomic":
				is.Path.Value = strconv.Quote("vx/vatomic")
				if is.Name == nil {
					is.Name = ast.NewIdent("atomic")
				}
				changedImport = true
			}
		}
		if !r.used && !changedImport {
			continue
		}
		if r.used {
			addImport(af, "vsched", "vx/vsched")
		}
		af.Comments = nil
		var buf bytes.Buffer
		if err := format.Node(&buf, fset, af); err != nil {
			fatal(2, "vinstr: print %s: %v", pj.files[i], err)
		}
		rel, _ := filepath.Rel(*src, pj.files[i])
		dst := filepath.Join(*out, strings.ReplaceAll(rel, "/", "__"))
		hdr := fmt.Sprintf("// Code generated by %s from %s; DO NOT EDIT.\n\n", version, pj.files[i])
		if err := os.WriteFile(dst, append([]byte(hdr), buf.Bytes()...), 0o644); err != nil {
			fatal(2, "vinstr: %v", err)
		}
		overlay[filepath.Join(*repo, rel)] = dst
	}
	var wl []string
	for k := range written {
		wl = append(wl, k.typ+"."+k.field)
	}
	sort.Strings(wl)
	os.WriteFile(filepath.Join(*out, "tracked-"+pkg.Name()+".txt"), []byte(strings.Join(wl, "\n")+"\n"), 0o644)
}

// rewriteTime puts time behind the scheduler's seam: context.WithTimeout / WithDeadline and time.Sleep in the code
// under test become vsched calls (inside a controlled execution the expiry instant is a scheduling choice);
// timers the scheduler does not own stop the run instead of being ignored.
func (r *rw) rewriteTime(af *ast.File) bool {
	changed := map[string]bool{}
	changedAny := false
	r.madeUnbuffered = map[*ast.CallExpr]bool{}
	r.replaceExpr = map[ast.Expr]ast.Expr{}
	ast.Inspect(af, func(n ast.Node) bool {
		call, ok := n.(*ast.CallExpr)
		if !ok {
			return true
		}
		if fid, isId := call.Fun.(*ast.Ident); isId {
			if _, isBuiltin := r.info.Uses[fid].(*types.Builtin); isBuiltin && fid.Name == "append" && len(call.Args) >= 2 {
				// append(b, ...) on a []byte: when the elements fit into the spare capacity they are written into the
				// backing array in place - memory that every other holder of that array shares. The write becomes an
				// event of the race monitor.
				if t := r.info.TypeOf(call.Args[0]); t != nil {
					if sl, isSlice := t.Underlying().(*types.Slice); isSlice {
						if b, isBasic := sl.Elem().Underlying().(*types.Basic); isBasic && b.Kind() == types.Uint8 {
							if _, plain := t.(*types.Slice); plain {
								call.Fun = &ast.SelectorExpr{X: ident("vsched"), Sel: ident("AppendBytes")}
								if call.Ellipsis.IsValid() {
									// append(b, s...) with a string s is a special form of the builtin only
									last := len(call.Args) - 1
									if lt := r.info.TypeOf(call.Args[last]); lt != nil {
										if lb, isStr := lt.Underlying().(*types.Basic); isStr && lb.Info()&types.IsString != 0 {
											call.Args[last] = &ast.CallExpr{Fun: &ast.ArrayType{Elt: ident("byte")}, Args: []ast.Expr{call.Args[last]}}
										}
									}
								}
								changedAny = true
							}
						}
					}
				}
				return true
			}
			if _, isBuiltin := r.info.Uses[fid].(*types.Builtin); isBuiltin && fid.Name == "make" && len(call.Args) >= 1 {
				// make(chan T) / make(chan T, 0): an unbuffered channel, modelled as a registered one-slot channel
				if t := r.info.TypeOf(call.Args[0]); t != nil {
					if _, isChan := t.Underlying().(*types.Chan); isChan {
						zero := len(call.Args) == 1
						if len(call.Args) == 2 {
							if tv, ok := r.info.Types[call.Args[1]]; ok && tv.Value != nil && tv.Value.String() == "0" {
								zero = true
							}
						}
						if zero && !r.madeUnbuffered[call] {
							inner := &ast.CallExpr{Fun: ident("make"), Args: []ast.Expr{call.Args[0], &ast.BasicLit{Kind: token.INT, Value: "1"}}}
							r.madeUnbuffered[inner] = true
							wrapped := &ast.TypeAssertExpr{X: &ast.CallExpr{Fun: &ast.SelectorExpr{X: ident("vsched"), Sel: ident("Unbuffered")}, Args: []ast.Expr{inner}}, Type: call.Args[0]}
							r.replaceExpr[call] = wrapped
							changedAny = true
						}
					}
				}
			}
			return true
		}
		sel, ok := call.Fun.(*ast.SelectorExpr)
		if !ok {
			return true
		}
		id, ok := sel.X.(*ast.Ident)
		if !ok {
			return true
		}
		pn, ok := r.info.Uses[id].(*types.PkgName)
		if !ok {
			return true
		}
		switch pn.Imported().Path() {
		case "context":
			if sel.Sel.Name == "WithTimeout" || sel.Sel.Name == "WithDeadline" || sel.Sel.Name == "AfterFunc" {
				call.Fun = &ast.SelectorExpr{X: ident("vsched"), Sel: ident(sel.Sel.Name)}
				changed[id.Name+" context.Context"] = true
			}
		case "time":
			switch sel.Sel.Name {
			case "Sleep", "Now", "Since", "Until":
				call.Fun = &ast.SelectorExpr{X: ident("vsched"), Sel: ident(sel.Sel.Name)}
				changed[id.Name+" time.Duration"] = true
			case "After", "AfterFunc", "NewTimer", "NewTicker", "Tick":
				unsupported(r.fset, call.Pos(), "time."+sel.Sel.Name+" (a timer the controlled scheduler does not own)")
			}
		}
		return true
	})
	// substitute the rewritten make(chan T) expressions in their parents
	if len(r.replaceExpr) > 0 {
		replaceExprs(af, r.replaceExpr)
	}
	// keep the imports used
	for k := range changed {
		parts := strings.SplitN(k, " ", 2)
		typ := strings.SplitN(parts[1], ".", 2)[1]
		af.Decls = append(af.Decls, &ast.GenDecl{Tok: token.VAR, Specs: []ast.Spec{&ast.ValueSpec{Names: []*ast.Ident{ident("_")}, Type: &ast.SelectorExpr{X: ident(parts[0]), Sel: ident(typ)}}}})
	}
	return len(changed) > 0 || changedAny
}

// rewriteUnixListener replaces the type *net.UnixListener, wherever the code under test names it as the target of a
// type assertion, a case of a type switch or the type of a declaration, by the interface vsched.UnixListener. The real
// type satisfies it, and so does the controlled listener that stands for a unix path socket, so the library's
// l.(*net.UnixListener).SetUnlinkOnClose(true) reaches the model (and the race monitor) instead of panicking.
func (r *rw) rewriteUnixListener(af *ast.File) bool {
	is := func(e ast.Expr) bool {
		st, ok := e.(*ast.StarExpr)
		if !ok {
			return false
		}
		sel, ok := st.X.(*ast.SelectorExpr)
		if !ok || sel.Sel.Name != "UnixListener" {
			return false
		}
		id, ok := sel.X.(*ast.Ident)
		if !ok {
			return false
		}
		pn, ok := r.info.Uses[id].(*types.PkgName)
		return ok && pn.Imported().Path() == "net"
	}
	repl := func() ast.Expr { return &ast.SelectorExpr{X: ident("vsched"), Sel: ident("UnixListener")} }
	changed := false
	ast.Inspect(af, func(n ast.Node) bool {
		switch x := n.(type) {
		case *ast.TypeAssertExpr:
			if x.Type != nil && is(x.Type) {
				x.Type = repl()
				changed = true
			}
		case *ast.CaseClause:
			for i, e := range x.List {
				if is(e) {
					x.List[i] = repl()
					changed = true
				}
			}
		case *ast.ValueSpec:
			if x.Type != nil && is(x.Type) {
				x.Type = repl()
				changed = true
			}
		case *ast.Field:
			if x.Type != nil && is(x.Type) {
				x.Type = repl()
				changed = true
			}
		}
		return true
	})
	return changed
}

// replaceExprs substitutes expressions (by identity) wherever they occur as operands in f.
func replaceExprs(f *ast.File, m map[ast.Expr]ast.Expr) {
	sub := func(e ast.Expr) ast.Expr {
		if n, ok := m[e]; ok {
			return n
		}
		return e
	}
	ast.Inspect(f, func(n ast.Node) bool {
		switch x := n.(type) {
		case *ast.AssignStmt:
			for i := range x.Rhs {
				x.Rhs[i] = sub(x.Rhs[i])
			}
		case *ast.ValueSpec:
			for i := range x.Values {
				x.Values[i] = sub(x.Values[i])
			}
		case *ast.CallExpr:
			for i := range x.Args {
				x.Args[i] = sub(x.Args[i])
			}
		case *ast.KeyValueExpr:
			x.Value = sub(x.Value)
		case *ast.CompositeLit:
			for i := range x.Elts {
				x.Elts[i] = sub(x.Elts[i])
			}
		case *ast.ReturnStmt:
			for i := range x.Results {
				x.Results[i] = sub(x.Results[i])
			}
		case *ast.SendStmt:
			x.Value = sub(x.Value)
		case *ast.ParenExpr:
			x.X = sub(x.X)
		}
		return true
	})
}

// globalResetInit builds, for a file that declares package-level variables, the declaration
//
//	func init() { vsched.RegisterGlobalReset(func() { v = <its initialiser>; w = *new(T); ... }) }
//
// so that the explorer can put package-level state back to its initial value before every execution
// (a stateless explorer assumes that all executions start from the same state).
func globalResetInit(af *ast.File) *ast.FuncDecl {
	var body []ast.Stmt
	for _, d := range af.Decls {
		gd, ok := d.(*ast.GenDecl)
		if !ok || gd.Tok != token.VAR {
			continue
		}
		for _, sp := range gd.Specs {
			vs := sp.(*ast.ValueSpec)
			allBlank := true
			for _, n := range vs.Names {
				if n.Name != "_" {
					allBlank = false
				}
			}
			if allBlank {
				continue
			}
			switch {
			case len(vs.Values) == len(vs.Names):
				for i, n := range vs.Names {
					if n.Name == "_" {
						continue
					}
					body = append(body, &ast.AssignStmt{Lhs: []ast.Expr{ident(n.Name)}, Tok: token.ASSIGN, Rhs: []ast.Expr{vs.Values[i]}})
				}
			case len(vs.Values) == 1: // a, b = f()
				var lhs []ast.Expr
				for _, n := range vs.Names {
					lhs = append(lhs, ident(n.Name))
				}
				body = append(body, &ast.AssignStmt{Lhs: lhs, Tok: token.ASSIGN, Rhs: []ast.Expr{vs.Values[0]}})
			case len(vs.Values) == 0 && vs.Type != nil:
				for _, n := range vs.Names {
					if n.Name == "_" {
						continue
					}
					zero := &ast.StarExpr{X: &ast.CallExpr{Fun: ident("new"), Args: []ast.Expr{vs.Type}}}
					body = append(body, &ast.AssignStmt{Lhs: []ast.Expr{ident(n.Name)}, Tok: token.ASSIGN, Rhs: []ast.Expr{zero}})
				}
			}
		}
	}
	if len(body) == 0 {
		return nil
	}
	reg := &ast.ExprStmt{X: &ast.CallExpr{
		Fun:  &ast.SelectorExpr{X: ident("vsched"), Sel: ident("RegisterGlobalReset")},
		Args: []ast.Expr{&ast.FuncLit{Type: &ast.FuncType{Params: &ast.FieldList{}}, Body: &ast.BlockStmt{List: body}}},
	}}
	return &ast.FuncDecl{Name: ident("init"), Type: &ast.FuncType{Params: &ast.FieldList{}}, Body: &ast.BlockStmt{List: []ast.Stmt{reg}}}
}

// listenHook makes the package's listen(ctx, network, address) consult vsched.ListenHook first, so that
// Service.Listen / Bind can be driven onto a controlled listener while running the tree's own code.
func (r *rw) listenHook(fd *ast.FuncDecl) {
	var names []string
	for _, f := range fd.Type.Params.List {
		for _, n := range f.Names {
			names = append(names, n.Name)
		}
	}
	if len(names) != 3 || fd.Type.Results == nil || len(fd.Type.Results.List) != 2 {
		return
	}
	src := "func() { if vsched.ListenHook != nil { vxl, vxerr := vsched.ListenHook(" + names[1] + ", " + names[2] + "); if vxl == nil { return nil, vxerr }; return vxl.(net.Listener), vxerr } }"
	e, err := parser.ParseExpr(src)
	if err != nil {
		fatal(2, "vinstr: listen hook: %v", err)
	}
	pro := e.(*ast.FuncLit).Body.List
	fd.Body.List = append(pro, fd.Body.List...)
	r.used = true
}

// activationHook makes the package's activationListener() consult vsched.ActivationHook first: a socket-activated
// start with a controlled listener as the inherited socket.
func (r *rw) activationHook(fd *ast.FuncDecl) {
	if fd.Type.Params.NumFields() != 0 || fd.Type.Results == nil || fd.Type.Results.NumFields() != 1 {
		return
	}
	if sel, ok := fd.Type.Results.List[0].Type.(*ast.SelectorExpr); !ok || sel.Sel.Name != "Listener" {
		return
	}
	src := "func() { if vsched.ActivationHook != nil { if vxl := vsched.ActivationHook(); vxl != nil { return vxl.(net.Listener) } } }"
	e, err := parser.ParseExpr(src)
	if err != nil {
		fatal(2, "vinstr: activation hook: %v", err)
	}
	pro := e.(*ast.FuncLit).Body.List
	fd.Body.List = append(pro, fd.Body.List...)
	r.used = true
}

func addImport(af *ast.File, name, path string) {
	spec := &ast.ImportSpec{Name: ast.NewIdent(name), Path: &ast.BasicLit{Kind: token.STRING, Value: strconv.Quote(path)}}
	gd := &ast.GenDecl{Tok: token.IMPORT, Specs: []ast.Spec{spec}}
	af.Decls = append([]ast.Decl{gd}, af.Decls...)
	af.Imports = append(af.Imports, spec)
}

// ---------------------------------------------------------------- classification

func (r *rw) site(pos token.Pos) string {
	return fmt.Sprintf("%s:%d@%s", r.fname, r.fset.Position(pos).Line, r.curFunc)
}

// trackedField returns the key of a selector naming a field of a struct type declared in this package.
func (r *rw) trackedField(sel *ast.SelectorExpr) (fieldKey, bool) {
	s, ok := r.info.Selections[sel]
	if !ok || s.Kind() != types.FieldVal {
		return fieldKey{}, false
	}
	if len(s.Index()) != 1 {
		return fieldKey{}, false
	}
	t := s.Recv()
	if p, ok := t.Underlying().(*types.Pointer); ok {
		t = p.Elem()
	}
	n, ok := t.(*types.Named)
	if !ok || n.Obj().Pkg() != r.pkg {
		return fieldKey{}, false
	}
	if _, ok := n.Underlying().(*types.Struct); !ok {
		return fieldKey{}, false
	}
	return fieldKey{n.Obj().Name(), sel.Sel.Name}, true
}

// trackedVar returns the key of an identifier naming a package-level variable of this package.
// sharedLocals finds the variables declared at function level (parameters, results, top-level declarations of the
// body) that are used inside a function literal started with `go` in that function.
func sharedLocals(files []*ast.File, info *types.Info) map[types.Object]bool {
	out := map[types.Object]bool{}
	for _, af := range files {
		var stack []*ast.FuncType
		var visit func(n ast.Node) bool
		visit = func(n ast.Node) bool {
			switch x := n.(type) {
			case *ast.FuncDecl:
				if x.Body != nil {
					stack = append(stack, x.Type)
					ast.Inspect(x.Body, visit)
					stack = stack[:len(stack)-1]
				}
				return false
			case *ast.FuncLit:
				stack = append(stack, x.Type)
				ast.Inspect(x.Body, visit)
				stack = stack[:len(stack)-1]
				return false
			case *ast.GoStmt:
				fl, ok := x.Call.Fun.(*ast.FuncLit)
				if !ok || len(stack) == 0 {
					return true
				}
				fscope := info.Scopes[stack[len(stack)-1]]
				ast.Inspect(fl.Body, func(m ast.Node) bool {
					if id, ok := m.(*ast.Ident); ok {
						if v, ok := info.Uses[id].(*types.Var); ok && !v.IsField() && fscope != nil && v.Parent() == fscope {
							if _, isChan := v.Type().Underlying().(*types.Chan); !isChan {
								out[v] = true
							}
						}
					}
					return true
				})
			}
			return true
		}
		ast.Inspect(af, visit)
	}
	return out
}

func (r *rw) trackedVar(id *ast.Ident) (fieldKey, bool) {
	o, ok := r.info.Uses[id]
	if !ok {
		return fieldKey{}, false
	}
	v, ok := o.(*types.Var)
	if !ok || v.IsField() || v.Pkg() != r.pkg || v.Parent() != r.pkg.Scope() {
		return fieldKey{}, false
	}
	return fieldKey{"", id.Name}, true
}

func isSyncType(t types.Type) bool {
	if p, ok := t.(*types.Pointer); ok {
		t = p.Elem()
	}
	n, ok := t.(*types.Named)
	if !ok || n.Obj().Pkg() == nil {
		return false
	}
	p := n.Obj().Pkg().Path()
	return p == "sync" || p == "sync/atomic"
}

// base strips index, slice, star and paren wrappers: the object an assignment through e modifies.
func base(e ast.Expr) ast.Expr {
	for {
		switch x := e.(type) {
		case *ast.ParenExpr:
			e = x.X
		case *ast.IndexExpr:
			e = x.X
		case *ast.SliceExpr:
			e = x.X
		case *ast.StarExpr:
			e = x.X
		default:
			return e
		}
	}
}

// writeTargets returns the set of expressions (selectors / idents) that node n writes.
func (r *rw) writeTargets(n ast.Node, set map[ast.Expr]bool) {
	ast.Inspect(n, func(n ast.Node) bool {
		switch x := n.(type) {
		case *ast.FuncLit:
			return false
		case *ast.AssignStmt:
			for _, l := range x.Lhs {
				set[base(l)] = true
			}
		case *ast.IncDecStmt:
			set[base(x.X)] = true
		case *ast.UnaryExpr:
			if x.Op == token.AND {
				b := base(x.X)
				// &T{...} is not a write
				if _, ok := b.(*ast.CompositeLit); !ok {
					set[b] = true
				}
			}
		case *ast.RangeStmt:
			if x.Tok == token.ASSIGN {
				if x.Key != nil {
					set[base(x.Key)] = true
				}
				if x.Value != nil {
					set[base(x.Value)] = true
				}
			}
		}
		return true
	})
}

// atomicCall recognises atomic.F(&x.field, ...) with atomic = package sync/atomic; write is false for loads.
func (r *rw) atomicCall(call *ast.CallExpr) (sel *ast.SelectorExpr, write bool, ok bool) {
	fun, isSel := call.Fun.(*ast.SelectorExpr)
	if !isSel || len(call.Args) == 0 {
		return nil, false, false
	}
	id, isId := fun.X.(*ast.Ident)
	if !isId {
		return nil, false, false
	}
	pn, isPkg := r.info.Uses[id].(*types.PkgName)
	if !isPkg || pn.Imported().Path() != "sync/atomic" {
		return nil, false, false
	}
	u, isU := call.Args[0].(*ast.UnaryExpr)
	if !isU || u.Op != token.AND {
		return nil, false, false
	}
	s, isS := u.X.(*ast.SelectorExpr)
	if !isS {
		return nil, false, false
	}
	return s, !strings.HasPrefix(fun.Sel.Name, "Load"), true
}

// pointeeCall: sel is the X of a method call through a pointer-to-struct field (e.g. c.reader.ReadBytes).
func (r *rw) pointeeCall(call *ast.CallExpr) (*ast.SelectorExpr, bool) {
	fun, ok := call.Fun.(*ast.SelectorExpr)
	if !ok {
		return nil, false
	}
	inner, ok := fun.X.(*ast.SelectorExpr)
	if !ok {
		return nil, false
	}
	if _, ok := r.trackedField(inner); !ok {
		return nil, false
	}
	t := r.info.TypeOf(inner)
	if t == nil || isSyncType(t) {
		return nil, false
	}
	p, ok := t.Underlying().(*types.Pointer)
	if !ok {
		return nil, false
	}
	if _, ok := p.Elem().Underlying().(*types.Struct); !ok {
		return nil, false
	}
	return inner, true
}

// scanWrites is the pre-pass: record every field / package variable written anywhere.
func (r *rw) scanWrites(n ast.Node) {
	set := map[ast.Expr]bool{}
	ast.Inspect(n, func(n ast.Node) bool {
		switch x := n.(type) {
		case *ast.AssignStmt, *ast.IncDecStmt, *ast.UnaryExpr, *ast.RangeStmt:
			sub := map[ast.Expr]bool{}
			switch y := x.(type) {
			case *ast.AssignStmt:
				for _, l := range y.Lhs {
					sub[base(l)] = true
				}
			case *ast.IncDecStmt:
				sub[base(y.X)] = true
			case *ast.UnaryExpr:
				if y.Op == token.AND {
					if _, ok := base(y.X).(*ast.CompositeLit); !ok {
						sub[base(y.X)] = true
					}
				}
			case *ast.RangeStmt:
				if y.Tok == token.ASSIGN {
					if y.Key != nil {
						sub[base(y.Key)] = true
					}
					if y.Value != nil {
						sub[base(y.Value)] = true
					}
				}
			}
			for e := range sub {
				set[e] = true
			}
		case *ast.CallExpr:
			if inner, ok := r.pointeeCall(x); ok {
				k, _ := r.trackedField(inner)
				r.written[fieldKey{k.typ, k.field + "*"}] = true
			}
		}
		return true
	})
	for e := range set {
		switch x := e.(type) {
		case *ast.SelectorExpr:
			if k, ok := r.trackedField(x); ok {
				if t := r.info.TypeOf(x); t != nil && isSyncType(t) {
					continue
				}
				r.written[k] = true
			}
		case *ast.Ident:
			if k, ok := r.trackedVar(x); ok {
				r.written[k] = true
			}
		}
	}
}

// ---------------------------------------------------------------- helpers building AST

func ident(s string) *ast.Ident { return ast.NewIdent(s) }

func strLit(s string) *ast.BasicLit {
	return &ast.BasicLit{Kind: token.STRING, Value: strconv.Quote(s)}
}

func boolLit(b bool) *ast.Ident {
	if b {
		return ident("true")
	}
	return ident("false")
}

func (r *rw) call(fn string, args ...ast.Expr) *ast.CallExpr {
	r.used = true
	return &ast.CallExpr{Fun: &ast.SelectorExpr{X: ident("vsched"), Sel: ident(fn)}, Args: args}
}

func (r *rw) newTmp(prefix string) string {
	r.tmp++
	return fmt.Sprintf("vx%s%d", prefix, r.tmp)
}

func sideEffectFree(e ast.Expr) bool {
	ok := true
	ast.Inspect(e, func(n ast.Node) bool {
		switch x := n.(type) {
		case *ast.CallExpr:
			// ctx.Done() and similar niladic accessors are idempotent
			if s, isSel := x.Fun.(*ast.SelectorExpr); isSel && len(x.Args) == 0 && s.Sel.Name == "Done" {
				return true
			}
			ok = false
		case *ast.UnaryExpr:
			if x.Op == token.ARROW {
				ok = false
			}
		case *ast.FuncLit:
			ok = false
		}
		return ok
	})
	return ok
}

// ---------------------------------------------------------------- access collection

// accesses returns the Access statements for the tracked reads/writes inside the
// given nodes (not descending into function literals, whose bodies are rewritten in place).
func (r *rw) accesses(nodes ...ast.Node) []ast.Stmt {
	var outS []ast.Stmt
	for _, n := range nodes {
		if n == nil || isNilNode(n) {
			continue
		}
		writes := map[ast.Expr]bool{}
		r.writeTargets(n, writes)
		atomicSel := map[*ast.SelectorExpr]bool{}
		ast.Inspect(n, func(n ast.Node) bool {
			switch x := n.(type) {
			case *ast.FuncLit:
				x.Body.List = r.stmts(x.Body.List)
				return false
			case *ast.CallExpr:
				if fid, isId := x.Fun.(*ast.Ident); isId && fid.Name == "append" && len(x.Args) >= 2 && sideEffectFree(x.Args[0]) {
					if _, isBuiltin := r.info.Uses[fid].(*types.Builtin); isBuiltin {
						if t := r.info.TypeOf(x.Args[0]); t != nil {
							if sl, isSlice := t.Underlying().(*types.Slice); isSlice {
								if b, isBasic := sl.Elem().Underlying().(*types.Basic); !(isBasic && b.Kind() == types.Uint8) {
									// append to a slice with spare capacity writes its first spare element in place: memory shared
									// with every other holder of the backing array ([]byte goes through vsched.AppendBytes)
									a := x.Args[0]
									spare := &ast.UnaryExpr{Op: token.AND, X: &ast.IndexExpr{X: &ast.SliceExpr{X: a, High: &ast.CallExpr{Fun: ident("cap"), Args: []ast.Expr{a}}}, Index: &ast.CallExpr{Fun: ident("len"), Args: []ast.Expr{a}}}}
									outS = append(outS, &ast.IfStmt{
										Cond: &ast.BinaryExpr{X: &ast.CallExpr{Fun: ident("len"), Args: []ast.Expr{a}}, Op: token.LSS, Y: &ast.CallExpr{Fun: ident("cap"), Args: []ast.Expr{a}}},
										Body: &ast.BlockStmt{List: []ast.Stmt{&ast.ExprStmt{X: r.call("AccessNoYield", spare, strLit("slice element (append in place)"), boolLit(true), strLit(r.site(x.Pos())))}}},
									})
								}
							}
						}
					}
				}
				if sel, write, ok := r.atomicCall(x); ok {
					// atomic.F(&obj.field, ...): an atomic access of the field, not a plain one
					atomicSel[sel] = true
					if k, ok := r.trackedField(sel); ok && r.written[k] {
						if obj, ok := r.objExpr(sel.X); ok {
							outS = append(outS, &ast.ExprStmt{X: r.call("AccessAtomic", obj, strLit(k.field), boolLit(write), strLit(r.site(x.Pos())))})
						}
					}
				}
				if inner, ok := r.pointeeCall(x); ok {
					k, _ := r.trackedField(inner)
					if r.written[fieldKey{k.typ, k.field + "*"}] {
						if obj, ok := r.objExpr(inner.X); ok {
							outS = append(outS, &ast.ExprStmt{X: r.call("Access", obj, strLit(k.field+"*"), boolLit(true), strLit(r.site(x.Pos())))})
						}
					}
				}
			case *ast.SelectorExpr:
				if atomicSel[x] {
					return true
				}
				if k, ok := r.trackedField(x); ok && r.written[k] {
					if t := r.info.TypeOf(x); t != nil && isSyncType(t) {
						return true
					}
					if obj, ok := r.objExpr(x.X); ok {
						outS = append(outS, &ast.ExprStmt{X: r.call("Access", obj, strLit(k.field), boolLit(writes[x]), strLit(r.site(x.Pos())))})
					}
				}
			case *ast.Ident:
				if o := r.info.Uses[x]; o != nil && r.shared[o] {
					// a variable of the enclosing function that a goroutine started there captures: memory shared
					// between the two (no scheduling point of its own: the monitor judges by happens-before)
					outS = append(outS, &ast.ExprStmt{X: r.call("AccessNoYield", &ast.UnaryExpr{Op: token.AND, X: ident(x.Name)}, strLit("local "+x.Name), boolLit(writes[x]), strLit(r.site(x.Pos())))})
				}
				if k, ok := r.trackedVar(x); ok && r.written[k] {
					outS = append(outS, &ast.ExprStmt{X: r.call("Access", strLit("pkgvar:"+r.pkg.Name()+"."+k.field), strLit(k.field), boolLit(writes[x]), strLit(r.site(x.Pos())))})
				}
			case *ast.UnaryExpr:
				if x.Op == token.ARROW {
					// a receive nested in an expression: handled by the statement-level cases only
					if !r.recvAllowed[x] {
						unsupported(r.fset, x.Pos(), "channel receive nested in an expression")
					}
				}
			}
			return true
		})
	}
	return outS
}

func isNilNode(n ast.Node) bool {
	switch x := n.(type) {
	case ast.Expr:
		return x == nil
	case ast.Stmt:
		return x == nil
	}
	return false
}

// objExpr returns the expression identifying the object whose field is accessed
// (must be a pointer and free of side effects).
func (r *rw) objExpr(x ast.Expr) (ast.Expr, bool) {
	t := r.info.TypeOf(x)
	if t == nil {
		return nil, false
	}
	if !sideEffectFree(x) {
		return nil, false
	}
	if _, ok := t.Underlying().(*types.Pointer); ok {
		return x, true
	}
	// addressable value (local struct / value receiver): identify by address when it is a plain identifier
	return nil, false
}
