package main

import (
	"bytes"
	"context"
	"encoding/json"
	"fmt"
	"reflect"
	"strings"

	"github.com/varlink/go/varlink"
	"vx/vnet"
	"vx/vsched"
)

// ---------------------------------------------------------------------------------------------
// C12: error replies keep their name and parameters end to end.

type errDisp struct {
	refusals *int
	done     int // invocations that have returned
}

func (e *errDisp) VarlinkGetName() string        { return "t.e" }
func (e *errDisp) VarlinkGetDescription() string { return "interface t.e" }
func (e *errDisp) VarlinkDispatch(ctx context.Context, c varlink.Call, method string) error {
	defer func() { e.done++ }()
	var in struct {
		Name   string           `json:"name"`
		Params *json.RawMessage `json:"params"`
		Which  string           `json:"which"`
		Arg    string           `json:"arg"`
		Cont   bool             `json:"cont"`
	}
	if err := c.GetParameters(&in); err != nil {
		return c.ReplyInvalidParameter(ctx, "parameters")
	}
	// a streaming handler that runs into an error has Continues still set ("the reply being sent is not the
	// last one" concerns Reply; error replies never carry it)
	c.Continues = in.Cont
	switch method {
	case "Err":
		var p interface{}
		if in.Params != nil {
			p = in.Params
		}
		if err := c.ReplyError(ctx, in.Name, p); err != nil {
			*e.refusals++
			c.Continues = false
			return c.Reply(ctx, map[string]bool{"refused": true})
		}
		return nil
	case "ErrValue":
		// parameters handed to ReplyError as Go values of several shapes
		return c.ReplyError(ctx, "t.e.V", c12GoValues()[in.Which])
	case "Reserved":
		// a name in the reserved namespace with parameters of every shape, incl. the library's own error structs:
		// refused whatever the parameters are
		if err := c.ReplyError(ctx, in.Name, c12ReservedParams()[in.Which]); err != nil {
			*e.refusals++
			c.Continues = false
			return c.Reply(ctx, map[string]bool{"refused": true})
		}
		return nil
	case "Typed":
		switch in.Which {
		case "InterfaceNotFound":
			return c.ReplyInterfaceNotFound(ctx, in.Arg)
		case "MethodNotFound":
			return c.ReplyMethodNotFound(ctx, in.Arg)
		case "MethodNotImplemented":
			return c.ReplyMethodNotImplemented(ctx, in.Arg)
		case "InvalidParameter":
			return c.ReplyInvalidParameter(ctx, in.Arg)
		}
	}
	return c.ReplyMethodNotFound(ctx, method)
}

type c12Quota struct {
	Remaining int64  `json:"remaining"`
	Unit      string `json:"unit"`
	Hard      bool   `json:"hard"`
}

type c12Opt struct {
	A *int64 `json:"a,omitempty"`
	B string `json:"b,omitempty"`
}

var c12GoValueOrder = []string{"zero-struct", "ptr-zero-struct", "struct", "ptr-struct", "empty-map", "map", "omitempty-zero", "zero-inner", "raw-empty", "nil"}

func c12GoValues() map[string]interface{} {
	return map[string]interface{}{
		"zero-struct":     c12Quota{},
		"ptr-zero-struct": &c12Quota{},
		"struct":          c12Quota{Remaining: 9007199254740993, Unit: "é", Hard: true},
		"ptr-struct":      &c12Quota{Remaining: -1},
		"empty-map":       map[string]int{},
		"map":             map[string]interface{}{"k": []int{}, "z": 0, "s": "", "f": false},
		"omitempty-zero":  c12Opt{},
		"zero-inner":      struct {
			Q c12Quota `json:"q"`
		}{},
		"raw-empty": json.RawMessage(`{}`),
		"nil":       nil,
	}
}

var c12ReservedOrder = []string{"nil", "map", "raw", "ptr-InvalidParameter", "InvalidParameter", "ptr-MethodNotFound", "ptr-MethodNotImplemented", "ptr-InterfaceNotFound", "ptr-Error", "error-value"}

func c12ReservedParams() map[string]interface{} {
	return map[string]interface{}{
		"nil": nil, "map": map[string]string{"parameter": "p"}, "raw": json.RawMessage(`{"method":"m"}`),
		"ptr-InvalidParameter": &varlink.InvalidParameter{Parameter: "p"}, "InvalidParameter": varlink.InvalidParameter{Parameter: "p"},
		"ptr-MethodNotFound": &varlink.MethodNotFound{Method: "m"}, "ptr-MethodNotImplemented": &varlink.MethodNotImplemented{Method: "m"},
		"ptr-InterfaceNotFound": &varlink.InterfaceNotFound{Interface: "i"}, "ptr-Error": &varlink.Error{Name: "org.varlink.service.InvalidParameter"},
		"error-value": fmt.Errorf("org.varlink.service.MethodNotFound"),
	}
}

type c12Desc struct {
	Kind   string   `json:"kind"` // names | typed | rawserver
	From   int      `json:"from"`
	To     int      `json:"to"`
	Sample []string `json:"sample,omitempty"`
}

type c12State struct {
	fail        string
	calls       int
	sendable    int
	refused     int
	unspecified int
	done        bool
}

var c12Params = []string{"", `{}`, `{"a":1}`, `{"a":{"b":[1,"é",null]}}`, `{"n":9007199254740993,"f":1E+2}`}

var c12NamesCache = map[string][]string{}

func c12Names(tier string) []string {
	if n, ok := c12NamesCache[tier]; ok {
		return n
	}
	toks := []string{"", "org", "varlink", "service", "x", "E", "é"}
	maxTok := 4
	if tier != "quick" {
		maxTok = 5
	}
	var out []string
	var rec func(parts []string)
	rec = func(parts []string) {
		if len(parts) > 0 {
			out = append(out, strings.Join(parts, "."))
		}
		if len(parts) == maxTok {
			return
		}
		for _, t := range toks {
			rec(append(parts, t))
		}
	}
	rec(nil)
	// custom errors whose member is named like a standard error, below interfaces that resemble the reserved one
	for _, pre := range []string{"org.varlink.resolver", "org.varlink", "io.kernel", "org.varlink.services", "org.varlink.service.service", "org.varlink.service.x", "com.example", "x", "service", "e"} {
		for _, m := range []string{"InterfaceNotFound", "MethodNotFound", "MethodNotImplemented", "InvalidParameter"} {
			out = append(out, pre+"."+m)
		}
	}
	out = append(out, "org.varlink.service.InvalidParameter", "org.varlink.service.E", "org.varlink.servicex.E", "org.varlink.service.x.E", "x.org.varlink.service.E", "org.varlink.service", "org.varlink.serviceE",
		"Org.varlink.service.E", "org.varlink.service .E", " org.varlink.service.E", "a b.c d", "x.E\x00", "\"x\".E", strings.Repeat("x.", 2000)+"E")
	c12NamesCache[tier] = out
	return out
}

// refErrName restates the rule: sendable iff the text before the last dot is non-empty and is not the reserved interface.
func refErrName(name string) (sendable bool, unspecified bool) {
	parts := strings.Split(name, ".")
	if len(parts) < 2 {
		return false, false
	}
	iface := strings.Join(parts[:len(parts)-1], ".")
	if iface == "" || iface == "org.varlink.service" {
		return false, false
	}
	if parts[len(parts)-1] == "" {
		return true, true
	}
	return true, false
}

func rawJSONEqual(a, b []byte) bool {
	da := json.NewDecoder(bytes.NewReader(a))
	da.UseNumber()
	db := json.NewDecoder(bytes.NewReader(b))
	db.UseNumber()
	var va, vb interface{}
	if da.Decode(&va) != nil || db.Decode(&vb) != nil {
		return false
	}
	return reflect.DeepEqual(va, vb)
}

func c12Body(d c12Desc, tier string) func() {
	return func() {
		w := newWorld()
		st := &c12State{}
		w.LC = st
		fail := func(format string, a ...interface{}) {
			if st.fail == "" {
				st.fail = fmt.Sprintf(format, a...)
			}
		}
		live := vnet.NewCtx("live")
		if d.Kind == "rawserver" {
			c12RawServer(st, fail, live)
			st.done = true
			return
		}
		s, _ := varlink.NewService("v", "p", "1", "u")
		refusals := 0
		ed := &errDisp{refusals: &refusals}
		s.RegisterInterface(ed)
		w.S = s
		w.Ctx = vnet.NewCtx("serve")
		l := vnet.NewListener("L0")
		vsched.GoDaemon("M", func() {
			s.VerifSetListener(l)
			s.DoListen(w.Ctx, 0)
		})
		c, _ := l.Dial("c0")
		conn := varlink.VerifNewConnection(c)
		lastFrame := func() string {
			if len(c.Log) == 0 {
				return ""
			}
			return strings.TrimSuffix(string(c.Log[len(c.Log)-1]), "\x00")
		}
		if d.Kind == "typed" {
			// Go values as error parameters: the wire carries their JSON encoding, also when every field is zero
			for _, which := range c12GoValueOrder {
				var out interface{}
				err := conn.Call(live, "t.e.ErrValue", map[string]string{"which": which}, &out)
				st.calls++
				e, ok := err.(*varlink.Error)
				if !ok || e.Name != "t.e.V" {
					fail("ReplyError with a %s value: client got %T %v", which, err, err)
					continue
				}
				raw, _ := e.Parameters.(*json.RawMessage)
				if which == "nil" {
					if raw != nil && string(*raw) != "null" {
						fail("ReplyError with nil parameters arrived with %s", string(*raw))
					}
					continue
				}
				want, _ := json.Marshal(c12GoValues()[which])
				if raw == nil || !rawJSONEqual(*raw, want) {
					got := "<none>"
					if raw != nil {
						got = string(*raw)
					}
					fail("ReplyError with a %s value: parameters %s arrived as %s", which, string(want), got)
				}
			}
			// the reserved namespace is refused whatever the parameters look like
			for _, name := range []string{"org.varlink.service.NoSuchError", "org.varlink.service.InvalidParameter", "org.varlink.service.MethodNotFound"} {
				for _, which := range c12ReservedOrder {
					nlog := len(c.Log)
					before := refusals
					var out map[string]interface{}
					err := conn.Call(live, "t.e.Reserved", map[string]string{"name": name, "which": which}, &out)
					st.calls++
					if refusals != before+1 || err != nil || out["refused"] != true || len(c.Log) != nlog+1 {
						fail("ReplyError(%q, <%s parameters>) in the reserved namespace must be refused with nothing written: refused=%v client got out=%v err=%v frame=%s", name, which, refusals != before, out, err, short(lastFrame()))
					}
				}
			}
			for _, which := range []string{"InterfaceNotFound", "MethodNotFound", "MethodNotImplemented", "InvalidParameter"} {
				for ai, arg := range []string{"", "a.b", "é\"\x00<&>", strings.Repeat("x", 5000), "a.b"} {
					nlog := len(c.Log)
					var out interface{}
					if ai%2 == 1 {
						// an out value whose members are named like the standard errors' parameters, with other types
						out = &struct {
							Parameter int   `json:"parameter"`
							Method    []int `json:"method"`
							Interface bool  `json:"interface"`
						}{}
					} else {
						out = &out
					}
					err := conn.Call(live, "t.e.Typed", map[string]interface{}{"which": which, "arg": arg, "cont": ai == 4}, out)
					st.calls++
					got := ""
					switch e := err.(type) {
					case *varlink.InterfaceNotFound:
						got = "InterfaceNotFound|" + e.Interface
					case *varlink.MethodNotFound:
						got = "MethodNotFound|" + e.Method
					case *varlink.MethodNotImplemented:
						got = "MethodNotImplemented|" + e.Method
					case *varlink.InvalidParameter:
						got = "InvalidParameter|" + e.Parameter
					default:
						got = fmt.Sprintf("%T %v", err, err)
					}
					if got != which+"|"+arg {
						fail("Reply%s(%q): client error is %s", which, short(arg), short(got))
					}
					if len(c.Log) != nlog+1 || c.Pending() != 0 {
						fail("Reply%s(%q): %d frames on the wire, want 1", which, short(arg), len(c.Log)-nlog)
					}
				}
			}
			st.done = true
			return
		}
		names := c12Names(tier)
		for _, name := range names[d.From:d.To] {
			for pi, ps := range append(append([]string(nil), c12Params...), c12Params[1]) {
				in := map[string]interface{}{"name": name}
				if pi == len(c12Params) {
					in["cont"] = true // the handler has Continues set when it sends the error
				}
				if ps != "" {
					in["params"] = json.RawMessage(ps)
				}
				nlog := len(c.Log)
				before := refusals
				var out map[string]interface{}
				sendable, unspec := refErrName(name)
				var err error
				if sendable && !unspec && pi%2 == 1 {
					// the caller's out value is for the method's reply; an error reply's parameters (here: members of
					// the same names with other types) have no business in it
					var typed struct {
						A string   `json:"a"`
						N string   `json:"n"`
						F []string `json:"f"`
					}
					err = conn.Call(live, "t.e.Err", in, &typed)
				} else {
					err = conn.Call(live, "t.e.Err", in, &out)
				}
				st.calls++
				if len(c.Log) != nlog+1 || c.Pending() != 0 {
					fail("error name %q: %d frames on the wire for one call", name, len(c.Log)-nlog)
					break
				}
				if unspec {
					st.unspecified++
					continue
				}
				if !sendable {
					st.refused++
					if refusals != before+1 || err != nil || out["refused"] != true {
						fail("error name %q is not of the form <interface>.<Name> outside org.varlink.service: ReplyError must refuse it and write nothing; refused=%v client got out=%v err=%v frame=%s", name, refusals != before, out, err, short(lastFrame()))
					}
					if pi == 0 && st.fail == "" {
						// the same on a call that wants no reply: the handler is told all the same that the name is refused
						before, doneBefore, nlog := refusals, ed.done, len(c.Log)
						if _, err := conn.Send(live, "t.e.Err", in, varlink.Oneway); err != nil {
							fail("oneway call: %v", err)
							continue
						}
						vsched.Yield("wait-oneway-handler", "H", func() bool { return ed.done > doneBefore })
						st.calls++
						if refusals != before+1 || len(c.Log) != nlog || c.Pending() != 0 {
							fail("error name %q on a oneway call: ReplyError must refuse it (and nothing is written); refused=%v frames written=%d", name, refusals != before, len(c.Log)-nlog)
						}
					}
					continue
				}
				st.sendable++
				if refusals != before {
					fail("error name %q: ReplyError refused a sendable name", name)
					continue
				}
				e, ok := err.(*varlink.Error)
				if !ok {
					fail("error name %q: client error is %T %v, want *varlink.Error", name, err, err)
					continue
				}
				if e.Name != name || e.Error() != name {
					fail("error name %q arrived as %q", name, e.Name)
				}
				raw, _ := e.Parameters.(*json.RawMessage)
				if ps == "" {
					if raw != nil && string(*raw) != "null" {
						fail("error %q sent without parameters arrived with %s", name, string(*raw))
					}
				} else if raw == nil || !rawJSONEqual(*raw, []byte(ps)) {
					got := "<nil>"
					if raw != nil {
						got = string(*raw)
					}
					fail("error %q parameters %s arrived as %s", name, ps, got)
				}
				// the wire frame itself
				var fr struct {
					Error      string          `json:"error"`
					Parameters json.RawMessage `json:"parameters"`
				}
				if json.Unmarshal([]byte(lastFrame()), &fr) != nil || fr.Error != name {
					fail("error %q: frame on the wire is %s", name, short(lastFrame()))
				}
			}
			if st.fail != "" {
				break
			}
		}
		st.done = true
	}
}

// c12RawServer: the client-side mapping alone, against a scripted raw server.
func c12RawServer(st *c12State, fail func(string, ...interface{}), live *vnet.Ctx) {
	peer, mine := vnet.Pipe("u")
	conn := varlink.VerifNewConnection(mine)
	type tc struct{ frame, want string }
	var cases []tc
	for _, e := range [][3]string{{"InterfaceNotFound", "interface", "InterfaceNotFound"}, {"MethodNotFound", "method", "MethodNotFound"}, {"MethodNotImplemented", "method", "MethodNotImplemented"}, {"InvalidParameter", "parameter", "InvalidParameter"}} {
		n := "org.varlink.service." + e[0]
		cases = append(cases,
			tc{fmt.Sprintf(`{"error":%q,"parameters":{%q:"é.x"}}`, n, e[1]), e[2] + "|é.x"},
			tc{fmt.Sprintf(`{"parameters":{%q:"v","extra":1},"error":%q}`, e[1], n), e[2] + "|v"},
			tc{fmt.Sprintf(`{"error":%q,"parameters":{}}`, n), e[2] + "|"},
			tc{fmt.Sprintf(`{"error":%q}`, n), e[2] + "|"},
			tc{fmt.Sprintf(`{"error":%q,"parameters":null}`, n), e[2] + "|"},
			// ill-shaped parameters: unspecified which error value, but it must be an error carrying the name
			tc{fmt.Sprintf(`{"error":%q,"parameters":{%q:5}}`, n, e[1]), "anyerror|" + n},
			tc{fmt.Sprintf(`{"error":%q,"parameters":[]}`, n), "anyerror|" + n},
			tc{fmt.Sprintf(`{"error":%q,"parameters":"s"}`, n), "anyerror|" + n},
		)
	}
	cases = append(cases, tc{`{"error":"org.varlink.service.Other","parameters":{"a":1}}`, "Error|org.varlink.service.Other"}, tc{`{"error":"x.y.E","parameters":{"interface":"i"}}`, "Error|x.y.E"})
	// more-calls: an error frame behind progress replies carries its own parameters (or none) - never what an
	// earlier reply of the same call carried
	type sc struct {
		frames []string
		want   string
	}
	prog := []string{`{"continues":true,"parameters":{"interface":"stale","method":"stale","parameter":"stale","q":"stale"}}`, `{"continues":true}`}
	var streams []sc
	for _, np := range []int{1, 2} {
		for _, e := range []sc{
			{[]string{`{"error":"x.y.E"}`}, "Error|x.y.E|"},
			{[]string{`{"error":"x.y.E","parameters":null}`}, "Error|x.y.E|"},
			{[]string{`{"error":"x.y.E","parameters":{"q":2}}`}, `Error|x.y.E|{"q":2}`},
			{[]string{`{"error":"x.y.E","parameters":{}}`}, `Error|x.y.E|{}`},
			{[]string{`{"error":"org.varlink.service.InterfaceNotFound"}`}, "InterfaceNotFound|"},
			{[]string{`{"error":"org.varlink.service.MethodNotFound","parameters":{}}`}, "MethodNotFound|"},
			{[]string{`{"error":"org.varlink.service.InvalidParameter"}`}, "InvalidParameter|"},
			{[]string{`{"error":"org.varlink.service.MethodNotImplemented","parameters":{"method":"m"}}`}, "MethodNotImplemented|m"},
		} {
			streams = append(streams, sc{append(append([]string{}, prog[:np]...), e.frames...), e.want})
		}
	}
	vsched.GoDaemon("P", func() {
		p := &rawPeer{c: peer}
		for _, c := range cases {
			if _, ok := p.readFrame(); !ok {
				return
			}
			peer.Write([]byte(c.frame + "\x00"))
		}
		for _, s := range streams {
			if _, ok := p.readFrame(); !ok {
				return
			}
			peer.Write([]byte(strings.Join(s.frames, "\x00") + "\x00"))
		}
	})
	defer func() {
		for _, s := range streams {
			recv, err := conn.Send(live, "a.b.M", nil, varlink.More)
			if err != nil {
				fail("more-call against the scripted server: Send failed: %v", err)
				return
			}
			st.calls++
			got := ""
			for i := 0; i < len(s.frames); i++ {
				var out map[string]interface{}
				fl, err := recv(live, &out)
				if err == nil {
					if fl&varlink.Continues == 0 {
						got = "success"
						break
					}
					continue
				}
				switch e := err.(type) {
				case *varlink.InterfaceNotFound:
					got = "InterfaceNotFound|" + e.Interface
				case *varlink.MethodNotFound:
					got = "MethodNotFound|" + e.Method
				case *varlink.MethodNotImplemented:
					got = "MethodNotImplemented|" + e.Method
				case *varlink.InvalidParameter:
					got = "InvalidParameter|" + e.Parameter
				case *varlink.Error:
					raw := ""
					switch pv := e.Parameters.(type) {
					case *json.RawMessage:
						if pv != nil {
							raw = string(*pv)
						}
					case json.RawMessage:
						raw = string(pv)
					case nil:
					default:
						raw = fmt.Sprintf("%T", pv)
					}
					if raw == "null" {
						raw = ""
					}
					got = "Error|" + e.Name + "|" + raw
				default:
					got = fmt.Sprintf("%T|%v", err, err)
				}
				break
			}
			if got != s.want {
				fail("server frames %s: the more-call ended with %s, want %s", strings.Join(s.frames, " "), got, s.want)
			}
		}
	}()
	for _, c := range cases {
		var out interface{}
		err := conn.Call(live, "a.b.M", nil, &out)
		st.calls++
		got := ""
		switch e := err.(type) {
		case *varlink.InterfaceNotFound:
			got = "InterfaceNotFound|" + e.Interface
		case *varlink.MethodNotFound:
			got = "MethodNotFound|" + e.Method
		case *varlink.MethodNotImplemented:
			got = "MethodNotImplemented|" + e.Method
		case *varlink.InvalidParameter:
			got = "InvalidParameter|" + e.Parameter
		case *varlink.Error:
			got = "Error|" + e.Name
		case nil:
			got = "success"
		default:
			got = fmt.Sprintf("%T|%v", err, err)
		}
		if strings.HasPrefix(c.want, "anyerror|") {
			if err == nil || !strings.Contains(err.Error(), strings.TrimPrefix(c.want, "anyerror|")) {
				fail("server frame %s: client returned %s, want an error naming %s", c.frame, got, strings.TrimPrefix(c.want, "anyerror|"))
			}
			continue
		}
		if got != c.want {
			fail("server frame %s: client returned %s, want %s", c.frame, got, c.want)
		}
	}
}

func c12Obs(x *vsched.Exec) string {
	w := worldOf(x)
	if w == nil {
		return "noworld"
	}
	st := w.LC.(*c12State)
	return fmt.Sprintf("calls=%d sendable=%d refused=%d unspec=%d fail=%s done=%v parked=%v", st.calls, st.sendable, st.refused, st.unspecified, st.fail, st.done, x.Parked)
}

func c12Check(x *vsched.Exec) (string, string) {
	if x.Panic != "" {
		return "panic: " + x.Panic, "panic"
	}
	w := worldOf(x)
	st := w.LC.(*c12State)
	if st.fail != "" {
		k := "error-name-or-parameters-changed"
		switch {
		case strings.Contains(st.fail, "must refuse"):
			k = "unsendable-name-sent"
		case strings.Contains(st.fail, "refused a sendable"):
			k = "sendable-name-refused"
		case strings.Contains(st.fail, "client error is") || strings.Contains(st.fail, "client returned"):
			k = "wrong-typed-error"
		case strings.Contains(st.fail, "frames on the wire"):
			k = "frame-count"
		}
		return st.fail, "symptom=" + k
	}
	if !st.done {
		return fmt.Sprintf("script did not finish (parked %v)", x.Parked), "symptom=stuck"
	}
	return "", ""
}

func scenariosC12(tier string) []Scen {
	var out []Scen
	names := c12Names(tier)
	const batch = 250
	for from := 0; from < len(names); from += batch {
		to := min(from+batch, len(names))
		d := c12Desc{Kind: "names", From: from, To: to, Sample: names[from:min(from+3, to)]}
		out = append(out, Scen{Desc: d, Bound: 0, Horizon: 5000000, Body: c12Body(d, tier), Check: c12Check, Obs: c12Obs, Cases: c12Cases})
	}
	for _, k := range []string{"typed", "rawserver"} {
		d := c12Desc{Kind: k}
		out = append(out, Scen{Desc: d, Bound: 1, Body: c12Body(d, tier), Check: c12Check, Obs: c12Obs, Cases: c12Cases})
	}
	return out
}

func c12Cases(x *vsched.Exec) int {
	if w := worldOf(x); w != nil {
		if st, ok := w.LC.(*c12State); ok {
			return st.calls
		}
	}
	return 0
}
