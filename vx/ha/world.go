package main

import (
	"context"
	"errors"
	"fmt"
	"strings"

	"github.com/varlink/go/varlink"
	"vx/vnet"
	"vx/vsched"
)

// World is the closed system around one Service instance in one execution.
type World struct {
	S      *varlink.Service
	L      *vnet.Listener
	Ctx    *vnet.Ctx
	Events []string // global event log (harness-level events, in execution order)
	// per connection (by client-end name) invocation log of the scripted dispatcher
	Inv      map[string][]string
	Active   map[string]int // handlers currently active per connection
	MaxAct   map[string]int
	Clients  map[string]*vnet.Conn
	ServeRet []string // return values of serving calls, in order ("nil" or error text)
	Misc     map[string]string
	LC       interface{}
	clock    int
	// OnQuit is what handler step 'S' does: the scenario's way of calling Shutdown from inside a handler
	OnQuit func()
}

func newWorld() *World {
	w := &World{Inv: map[string][]string{}, Active: map[string]int{}, MaxAct: map[string]int{}, Clients: map[string]*vnet.Conn{}, Misc: map[string]string{}}
	vsched.X.User = w
	return w
}

func worldOf(x *vsched.Exec) *World {
	w, _ := x.User.(*World)
	return w
}

func (w *World) ev(format string, a ...interface{}) int {
	w.clock++
	s := fmt.Sprintf(format, a...)
	w.Events = append(w.Events, s)
	vsched.Tracef("EVENT %s", s)
	return w.clock
}

func (w *World) now() int { return w.clock }

// scripted dispatcher -----------------------------------------------------------------

type disp struct {
	name string
	desc  string
	asked int
	w    *World
}

func (d *disp) VarlinkGetName() string        { return d.name }
// The description is what the dispatcher says when it is registered; asked again later it says something else
// (a dispatcher is free to): introspection reports the registered text.
func (d *disp) VarlinkGetDescription() string {
	d.asked++
	if d.asked > 1 {
		return d.desc + "\n# (asked again)"
	}
	return d.desc
}

func connName(c varlink.Call) string {
	if g, ok := c.Conn.(varlink.GetNetConn); ok {
		if vc, ok := g.NetConn().(*vnet.Conn); ok {
			return strings.TrimSuffix(vc.Name, ".srv")
		}
	}
	return "?"
}

func errStr(err error) string {
	if err == nil {
		return "ok"
	}
	return "err"
}

// VarlinkDispatch interprets the method name as a reply script, one letter per action:
//
//	R final reply      C continues reply      E error reply t.a.Err     N error reply with an
//	invalid name (refused)   O error reply in the reserved namespace (refused)   X return a
//	handler error      K continues reply leaving Call.Continues set      M built-in MethodNotFound reply by the handler
//	B block until the context is cancelled, then return its error
//	G GetParameters and reply them back (echo)    Z no action (pure scheduling point)
func (d *disp) VarlinkDispatch(ctx context.Context, c varlink.Call, method string) error {
	w := d.w
	cn := connName(c)
	w.Active[cn]++
	if w.Active[cn] > w.MaxAct[cn] {
		w.MaxAct[cn] = w.Active[cn]
	}
	defer func() { w.Active[cn]-- }()
	log := func(s string) { w.Inv[cn] = append(w.Inv[cn], s) }
	log("call " + d.name + "." + method + flagsOf(c))
	n := 0
	for _, a := range method {
		vsched.Yield("handler-step", cn, vsched.Always)
		switch a {
		case 'R':
			n++
			c.Continues = false
			if err := c.Reply(ctx, map[string]int{"r": n}); err != nil {
				log("R:ioerr")
				return err
			}
			log("R:ok")
		case 'C':
			n++
			c.Continues = true
			err := c.Reply(ctx, map[string]int{"c": n})
			c.Continues = false
			if err != nil && c.WantsMore() {
				log("C:ioerr")
				return err
			}
			log("C:" + errStr(err))
		case 'K':
			// a continues reply whose handler leaves Call.Continues set afterwards (it is the handler's
			// flag for "the reply being sent is not the last one"; error replies never carry it)
			n++
			c.Continues = true
			err := c.Reply(ctx, map[string]int{"c": n})
			if err != nil && c.WantsMore() {
				log("K:ioerr")
				return err
			}
			log("K:" + errStr(err))
		case 'M':
			// a built-in error reply sent by the handler itself
			if err := c.ReplyMethodNotFound(ctx, "m"); err != nil {
				log("M:ioerr")
				return err
			}
			log("M:ok")
		case 'E':
			if err := c.ReplyError(ctx, "t.a.Err", map[string]int{"e": 1}); err != nil {
				log("E:ioerr")
				return err
			}
			log("E:ok")
		case 'N':
			err := c.ReplyError(ctx, "NoDot", nil)
			log("N:" + errStr(err))
		case 'O':
			err := c.ReplyError(ctx, "org.varlink.service.Foo", nil)
			log("O:" + errStr(err))
		case 'P', 'Q':
			// the usual "return call.ReplyError(...)" shape with a name the library refuses (P: no interface
			// part, Q: reserved namespace): the handler hands the refusal back as its own error
			name := map[rune]string{'P': "NoDot", 'Q': "org.varlink.service.Foo"}[a]
			if err := c.ReplyError(ctx, name, nil); err != nil {
				log(string(a) + ":ret-err")
				return err
			}
			log(string(a) + ":ok")
		case 'D':
			// "return call.Reply(...)" with Continues set although the caller may not have asked for more
			n++
			c.Continues = true
			err := c.Reply(ctx, map[string]int{"c": n})
			c.Continues = false
			if err != nil {
				log("D:ret-err")
				return err
			}
			log("D:ok")
		case 'L':
			// a streaming handler: continues replies until one of them fails (that is how it learns the peer is gone)
			for i := 0; i < 6; i++ {
				n++
				c.Continues = true
				err := c.Reply(ctx, map[string]int{"c": n})
				c.Continues = false
				if err != nil {
					log("L:ioerr")
					return err
				}
				log("L:ok")
			}
		case 'I':
			// a handler error that happens to be one of the library's own typed errors (a gateway forwarding what a
			// downstream call returned): a handler error like any other, the handler has not replied
			log("I")
			return &varlink.InterfaceNotFound{Interface: "down.stream"}
		case 'J':
			log("J")
			return &varlink.Error{Name: "t.a.Err"}
		case 'T':
			// a handler error of the timeout class (a sub-operation of the handler ran out of time) while the
			// connection's own context is alive: a handler error like any other
			log("T")
			return fmt.Errorf("backend: %w", context.DeadlineExceeded)
		case 'X':
			log("X")
			return errors.New("handler error")
		case 'B':
			vsched.ChanRecv(ctx.Done())
			<-ctx.Done()
			log("B:done")
			return ctx.Err()
		case 'G':
			var p interface{}
			err := c.GetParameters(&p)
			log("G:" + errStr(err))
			c.Reply(ctx, p)
		case 'S':
			// a Quit method: the handler itself shuts the service down, then goes on (replies, returns)
			if w.OnQuit != nil {
				w.OnQuit()
			} else {
				w.S.Shutdown()
			}
			log("S:done")
		case 'Z':
		default:
			return c.ReplyMethodNotFound(ctx, method)
		}
	}
	log("ret")
	return nil
}

func flagsOf(c varlink.Call) string {
	s := ""
	if c.WantsMore() {
		s += "+more"
	}
	if c.IsOneway() {
		s += "+oneway"
	}
	if c.WantsUpgrade() {
		s += "+upgrade"
	}
	return s
}

func (w *World) newService(ifaces ...string) {
	s, err := varlink.NewService("vendor", "product", "1", "http://url")
	if err != nil {
		panic(err)
	}
	for _, n := range ifaces {
		if err := s.RegisterInterface(&disp{name: n, desc: "interface " + n + "\nmethod R() -> ()\n", w: w}); err != nil {
			panic(err)
		}
	}
	w.S = s
}

// rawClient runs a raw client: dial, write the chunks, then end the connection.
// end: "close" (orderly), "half" (half-close, keep reading), "abort" (RST), "none".
func (w *World) rawClient(name string, chunks []string, end string) {
	c, err := w.L.Dial(name)
	if err != nil {
		w.ev("dial-refused %s", name)
		return
	}
	w.Clients[name] = c
	w.ev("dialed %s", name)
	for _, ch := range chunks {
		if _, err := c.Write([]byte(ch)); err != nil {
			break
		}
	}
	switch end {
	case "close":
		c.Close()
	case "half":
		c.CloseWrite()
	case "abort":
		c.Abort()
	}
	w.ev("client-end %s", name)
}

// frames splits what a client received into NUL-terminated frames (a trailing partial frame is reported as such).
func frames(b []byte) (fr []string, partial string) {
	for {
		i := strings.IndexByte(string(b), 0)
		if i < 0 {
			break
		}
		fr = append(fr, string(b[:i]))
		b = b[i+1:]
	}
	return fr, string(b)
}
