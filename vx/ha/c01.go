package main

import (
	"encoding/json"
	"fmt"
	"reflect"
	"strings"

	"vx/vnet"
	"vx/vsched"
)

// ---------------------------------------------------------------------------------------------
// C01: per-call reply discipline on every connection.

type callKind struct {
	Method string `json:"m"` // full method string; for the registered interface t.a the method name is the handler script
	Flags  string `json:"f"` // "", "oneway", "more", "upgrade", "more+oneway"
	P      string `json:"p,omitempty"` // raw JSON of the "parameters" member ("" = member absent); only the built-in GetInterfaceDescription reads it
}

func (k callKind) frame() string {
	m := map[string]interface{}{"method": k.Method}
	if k.P != "" {
		m["parameters"] = json.RawMessage(k.P)
	}
	for _, f := range strings.Split(k.Flags, "+") {
		if f != "" {
			m[f] = true
		}
	}
	b, _ := json.Marshal(m)
	return string(b) + "\x00"
}

type c01Desc struct {
	Conns [][]callKind `json:"conns"` // one call script per connection
	Cuts  []int        `json:"cuts"`  // byte offsets at which connection 0's request stream is split into writes (-1 = one byte per write)
}

// refConn is the sequential reference model of one connection: what must be on the wire and in
// the handler log for this call script, whatever else happens on the service.
func refConn(calls []callKind) (frames []interface{}, log []string) {
	for _, k := range calls {
		oneway := strings.Contains(k.Flags, "oneway")
		more := strings.Contains(k.Flags, "more")
		emit := func(v map[string]interface{}) {
			if !oneway {
				frames = append(frames, v)
			}
		}
		r := strings.LastIndex(k.Method, ".")
		if r <= 0 {
			emit(map[string]interface{}{"error": "org.varlink.service.InvalidParameter", "parameters": map[string]interface{}{"parameter": "method"}})
			continue
		}
		iface, meth := k.Method[:r], k.Method[r+1:]
		switch iface {
		case "org.varlink.service":
			if meth == "GetInfo" {
				emit(map[string]interface{}{"parameters": map[string]interface{}{"vendor": "vendor", "product": "product", "version": "1", "url": "http://url",
					"interfaces": []interface{}{"org.varlink.service", "t.a", "t.b"}}})
			} else if meth == "GetInterfaceDescription" {
				var in struct {
					Interface string `json:"interface"`
				}
				switch {
				case k.P == "" || json.Unmarshal([]byte(k.P), &in) != nil:
					emit(map[string]interface{}{"error": "org.varlink.service.InvalidParameter", "parameters": map[string]interface{}{"parameter": "parameters"}})
				case in.Interface == "t.a" || in.Interface == "t.b":
					emit(map[string]interface{}{"parameters": map[string]interface{}{"description": "interface " + in.Interface + "\nmethod R() -> ()\n"}})
				default:
					emit(map[string]interface{}{"error": "org.varlink.service.InvalidParameter", "parameters": map[string]interface{}{"parameter": "interface"}})
				}
			} else {
				emit(map[string]interface{}{"error": "org.varlink.service.MethodNotFound", "parameters": map[string]interface{}{"method": meth}})
			}
			continue
		case "t.a", "t.b":
		default:
			emit(map[string]interface{}{"error": "org.varlink.service.InterfaceNotFound", "parameters": map[string]interface{}{"interface": iface}})
			continue
		}
		fl := ""
		if more {
			fl += "+more"
		}
		if oneway {
			fl += "+oneway"
		}
		if strings.Contains(k.Flags, "upgrade") {
			fl += "+upgrade"
		}
		log = append(log, "call "+iface+"."+meth+fl)
		n := 0
		ended := false
		for _, a := range meth {
			switch a {
			case 'R':
				n++
				log = append(log, "R:ok")
				emit(map[string]interface{}{"parameters": map[string]interface{}{"r": float64(n)}})
			case 'C':
				n++
				if !more {
					log = append(log, "C:err")
				} else {
					log = append(log, "C:ok")
					emit(map[string]interface{}{"continues": true, "parameters": map[string]interface{}{"c": float64(n)}})
				}
			case 'K':
				n++
				if !more {
					log = append(log, "K:err")
				} else {
					log = append(log, "K:ok")
					emit(map[string]interface{}{"continues": true, "parameters": map[string]interface{}{"c": float64(n)}})
				}
			case 'M':
				log = append(log, "M:ok")
				emit(map[string]interface{}{"error": "org.varlink.service.MethodNotFound", "parameters": map[string]interface{}{"method": "m"}})
			case 'E':
				log = append(log, "E:ok")
				emit(map[string]interface{}{"error": "t.a.Err", "parameters": map[string]interface{}{"e": float64(1)}})
			case 'N':
				log = append(log, "N:err")
			case 'O':
				log = append(log, "O:err")
			case 'P', 'Q':
				log = append(log, string(a)+":ret-err")
				ended = true
			case 'D':
				n++
				if !more {
					log = append(log, "D:ret-err")
					ended = true
				} else {
					log = append(log, "D:ok")
					emit(map[string]interface{}{"continues": true, "parameters": map[string]interface{}{"c": float64(n)}})
				}
			case 'L':
				if !more {
					log = append(log, "L:ioerr")
					ended = true
				} else {
					for i := 0; i < 6; i++ {
						n++
						log = append(log, "L:ok")
						emit(map[string]interface{}{"continues": true, "parameters": map[string]interface{}{"c": float64(n)}})
					}
				}
			case 'T', 'I', 'J':
				log = append(log, string(a))
				ended = true
			case 'X':
				log = append(log, "X")
				ended = true
			case 'Z':
			}
			if ended {
				break
			}
		}
		if ended {
			return frames, log
		}
		log = append(log, "ret")
	}
	return frames, log
}

func chunksOf(stream string, cuts []int) []string {
	if len(cuts) == 1 && cuts[0] == -1 {
		var out []string
		for i := 0; i < len(stream); i++ {
			out = append(out, stream[i:i+1])
		}
		return out
	}
	var out []string
	prev := 0
	for _, c := range cuts {
		if c > prev && c < len(stream) {
			out = append(out, stream[prev:c])
			prev = c
		}
	}
	out = append(out, stream[prev:])
	return out
}

type c01State struct {
	L *vnet.Listener
}

func c01Body(d c01Desc) func() {
	return func() {
		w := newWorld()
		w.newService("t.a", "t.b")
		w.Ctx = vnet.NewCtx("serve")
		l := vnet.NewListener("L0")
		w.LC = &c01State{L: l}
		vsched.GoDaemon("M", func() {
			w.S.VerifSetListener(l)
			w.S.DoListen(w.Ctx, 0)
		})
		for i, calls := range d.Conns {
			i := i
			stream := ""
			for _, k := range calls {
				stream += k.frame()
			}
			var chunks []string
			if i == 0 {
				chunks = chunksOf(stream, d.Cuts)
			} else {
				chunks = []string{stream}
			}
			name := fmt.Sprintf("c%d", i)
			vsched.GoDaemon(name, func() { w.rawClientOn(l, name, chunks, "half") })
		}
	}
}

func c01Obs(x *vsched.Exec) string {
	w := worldOf(x)
	if w == nil {
		return "noworld"
	}
	var sb strings.Builder
	for i := 0; i < 3; i++ {
		n := fmt.Sprintf("c%d", i)
		if c, ok := w.Clients[n]; ok {
			fmt.Fprintf(&sb, "%s=%q inv=%v|", n, c.Received(), w.Inv[n])
		}
	}
	fmt.Fprintf(&sb, "parked=%v panic=%v", x.Parked, x.Panic != "")
	return sb.String()
}

func c01Check(d c01Desc) func(x *vsched.Exec) (string, string) {
	type exp struct {
		frames []interface{}
		log    []string
	}
	var exps []exp
	for _, calls := range d.Conns {
		f, l := refConn(calls)
		exps = append(exps, exp{f, l})
	}
	return func(x *vsched.Exec) (string, string) {
		if x.Panic != "" {
			return "panic: " + x.Panic, "panic"
		}
		if x.HitHorizon {
			return "", ""
		}
		w := worldOf(x)
		st := w.LC.(*c01State)
		for i := range d.Conns {
			n := fmt.Sprintf("c%d", i)
			c, ok := w.Clients[n]
			if !ok {
				return fmt.Sprintf("connection %s never connected", n), "symptom=no-connect"
			}
			fr, partial := frames(c.Received())
			if partial != "" {
				return fmt.Sprintf("%s: bytes after the last NUL: %q", n, partial), "symptom=partial-frame"
			}
			var got []interface{}
			for _, f := range fr {
				var v interface{}
				if err := json.Unmarshal([]byte(f), &v); err != nil {
					return fmt.Sprintf("%s: frame is not JSON: %q", n, f), "symptom=bad-frame"
				}
				got = append(got, v)
			}
			if !jsonEqual(got, exps[i].frames) {
				return fmt.Sprintf("%s (calls %s): replies on the wire %s, reference %s", n, jstr(d.Conns[i]), jstr(got), jstr(exps[i].frames)), "symptom=wrong-replies"
			}
			if !reflect.DeepEqual(w.Inv[n], exps[i].log) && !(len(w.Inv[n]) == 0 && len(exps[i].log) == 0) {
				return fmt.Sprintf("%s (calls %s): handler log %v, reference %v", n, jstr(d.Conns[i]), w.Inv[n], exps[i].log), "symptom=wrong-handler-log"
			}
			if w.MaxAct[n] > 1 {
				return fmt.Sprintf("%s: %d handlers were active at the same time on one connection", n, w.MaxAct[n]), "symptom=overlapping-handlers"
			}
		}
		// every connection has ended (client half-closed): the service must have closed its end
		for _, sc := range st.L.Accepted {
			if !sc.IsClosed() {
				return fmt.Sprintf("service never closed %s after the client's EOF / the handler error (parked %v)", sc.Name, x.Parked), "symptom=connection-not-closed"
			}
		}
		return "", ""
	}
}

func kindKey(calls []callKind) string {
	var p []string
	for _, k := range calls {
		p = append(p, k.Method+"/"+k.Flags)
	}
	return strings.Join(p, ",")
}

func jsonEqual(a, b interface{}) bool {
	ja, _ := json.Marshal(a)
	jb, _ := json.Marshal(b)
	if string(ja) == "null" {
		ja = []byte("[]")
	}
	if string(jb) == "null" {
		jb = []byte("[]")
	}
	var va, vb interface{}
	json.Unmarshal(ja, &va)
	json.Unmarshal(jb, &vb)
	return reflect.DeepEqual(va, vb)
}

var c01Flags = []string{"", "oneway", "more", "upgrade", "more+oneway"}
var c01Scripts = []string{"R", "CR", "CCR", "E", "NR", "OR", "Z", "X", "RX", "CX", "KE", "KM", "KNE", "PR", "QR", "DR", "TR", "IR", "JR"}

func c01Kinds() []callKind {
	var ks []callKind
	for _, f := range c01Flags {
		for _, s := range c01Scripts {
			ks = append(ks, callKind{Method: "t.a." + s, Flags: f})
		}
		for _, m := range []string{"u.x.M", "M", "org.varlink.service.GetInfo", "org.varlink.service.Nope"} {
			ks = append(ks, callKind{Method: m, Flags: f})
		}
		// the built-in description query: registered name, unknown name, parameters absent
		for _, p := range []string{`{"interface":"t.a"}`, "", `{"interface":"no.such"}`} {
			if p != "" && p[14] == 'n' && f != "" && f != "oneway" {
				continue
			}
			ks = append(ks, callKind{Method: "org.varlink.service.GetInterfaceDescription", Flags: f, P: p})
		}
	}
	return ks
}

func scenariosC01(tier string) []Scen {
	var out []Scen
	add := func(d c01Desc, bound int) {
		out = append(out, Scen{Desc: d, Bound: bound, Body: c01Body(d), Check: c01Check(d), Obs: c01Obs})
	}
	kinds := c01Kinds()
	// the remaining three flag combinations (oneway+upgrade, more+upgrade, all three) with a subset of the kinds:
	// alone, and paired with three plain partners in both orders
	var extra []callKind
	for _, f := range []string{"oneway+upgrade", "more+upgrade", "more+oneway+upgrade"} {
		for _, m := range []string{"t.a.R", "t.a.CR", "t.a.E", "t.a.X", "u.x.M", "M", "org.varlink.service.GetInfo", "org.varlink.service.Nope"} {
			extra = append(extra, callKind{Method: m, Flags: f})
		}
		extra = append(extra, callKind{Method: "org.varlink.service.GetInterfaceDescription", Flags: f, P: `{"interface":"t.a"}`})
	}
	// (a) one connection: all call sequences of length <= 2; whole stream in one write with schedule
	// deviations, and every 1-cut segmentation (every byte offset) plus one byte per write.
	var seqs [][]callKind
	for _, a := range kinds {
		seqs = append(seqs, []callKind{a})
	}
	for _, a := range kinds {
		for _, b := range kinds {
			seqs = append(seqs, []callKind{a, b})
		}
	}
	for _, a := range extra {
		seqs = append(seqs, []callKind{a})
		for _, p := range []callKind{{Method: "t.a.R"}, {Method: "t.a.R", Flags: "oneway"}, {Method: "org.varlink.service.GetInfo"}} {
			seqs = append(seqs, []callKind{a, p}, []callKind{p, a})
		}
	}
	if tier != "quick" {
		sub := []callKind{{Method: "t.a.R", Flags: ""}, {Method: "t.a.CR", Flags: "more"}, {Method: "t.a.R", Flags: "oneway"}, {Method: "t.a.X", Flags: ""}, {Method: "M", Flags: ""}, {Method: "t.a.CR", Flags: ""}, {Method: "org.varlink.service.GetInfo", Flags: "oneway"}, {Method: "t.a.E", Flags: "upgrade"}, {Method: "org.varlink.service.GetInterfaceDescription", Flags: "oneway", P: `{"interface":"t.a"}`}}
		for _, a := range sub {
			for _, b := range sub {
				for _, c := range sub {
					seqs = append(seqs, []callKind{a, b, c})
				}
			}
		}
	}
	for _, s := range seqs {
		b := 1
		if tier != "quick" && len(s) == 1 {
			b = 2
		}
		add(c01Desc{Conns: [][]callKind{s}}, b)
		n := 0
		for _, k := range s {
			n += len(k.frame())
		}
		if len(s) <= 2 {
			step := 1
			if tier == "quick" && len(s) == 2 {
				step = 4 // quick: every fourth offset for two-call streams (all offsets in thorough)
			}
			for c := 1; c < n; c += step {
				add(c01Desc{Conns: [][]callKind{s}, Cuts: []int{c}}, 0)
			}
			add(c01Desc{Conns: [][]callKind{s}, Cuts: []int{-1}}, 0)
			if tier != "quick" && len(s) == 1 {
				for c1 := 1; c1 < n; c1++ {
					for c2 := c1 + 1; c2 < n; c2++ {
						add(c01Desc{Conns: [][]callKind{s}, Cuts: []int{c1, c2}}, 0)
					}
				}
			}
		}
	}
	// (b) two and three connections: collision-forcing sub-alphabet (different flags, methods, scripts)
	sub := []callKind{{Method: "t.a.R", Flags: ""}, {Method: "t.b.CCR", Flags: "more"}, {Method: "t.a.R", Flags: "oneway"}, {Method: "t.a.X", Flags: ""}, {Method: "M", Flags: ""}, {Method: "t.b.CR", Flags: ""}, {Method: "org.varlink.service.GetInfo", Flags: ""}, {Method: "u.x.M", Flags: "more"}, {Method: "t.a.E", Flags: "upgrade"}, {Method: "t.b.RX", Flags: "more+oneway"}}
	b2 := 2
	b21 := 1
	if tier != "quick" {
		b2, b21 = 3, 2
	}
	for _, a := range sub {
		for _, b := range sub {
			add(c01Desc{Conns: [][]callKind{{a}, {b}}}, b2)
			for _, a2 := range sub {
				add(c01Desc{Conns: [][]callKind{{a, a2}, {b}}}, b21)
			}
		}
	}
	sub3 := sub[:5]
	for _, a := range sub3 {
		for _, b := range sub3 {
			for _, c := range sub3 {
				add(c01Desc{Conns: [][]callKind{{a}, {b}, {c}}}, b21)
			}
		}
	}
	return out
}
