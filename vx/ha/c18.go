package main

import (
	"context"
	"fmt"
	"strings"

	"github.com/varlink/go/varlink"
	"vx/vnet"
	"vx/vsched"
)

// ---------------------------------------------------------------------------------------------
// C18: the byte stream of a connection is delivered exactly once and in order whichever read
// primitive consumes it.

type c18Desc struct {
	Stream string   `json:"stream"` // name of the stream
	Cuts   []int    `json:"cuts"`   // segment boundaries (-1: one byte per segment)
	Word   []string `json:"word"`   // B | R<n>
}

type c18E2E struct {
	Side   string `json:"side"`   // client: reply frame + payload towards the client; service: request frame + payload towards the handler
	Cut    int    `json:"cut"`    // -2: two writes merged by the network (Coalesce), -1: one write, >=0: one write split at this offset
	Buf    int    `json:"buf"`    // size of the raw read buffer
	Frames int    `json:"frames"` // service side: ordinary calls preceding the upgraded one
}

var c18StreamsCache map[string]string

func c18Streams() map[string]string {
	if c18StreamsCache == nil {
		c18StreamsCache = c18StreamsBuild()
	}
	return c18StreamsCache
}

func c18StreamsBuild() map[string]string {
	big := strings.Repeat("0123456789", 500)
	f40 := `{"parameters":{"k":"` + strings.Repeat("v", 18) + `"}}`
	mk := func(n int) string { return `{"p":"` + strings.Repeat("z", n-8) + `"}` }
	return map[string]string{
		"p0":     "",
		"p1":     "R",
		"p7":     "RAWDATA",
		"pnul":   "A\x00B",
		"f1p7":   "{}\x00RAWDATA",
		"f1pnul": "{}\x00A\x00B",
		"f2p7":   "{}\x00" + f40 + "\x00RAWDATA",
		"f2p0":   "{}\x00" + f40 + "\x00",
		"f1big":  "{}\x00" + big,
		// an upgraded protocol whose first bytes are line ends, blanks or a second NUL (nothing behind a frame is padding)
		"f1lf":      "{}\x00\nRAW\n",
		"f1crlf":    "{}\x00\r\n\r\nRAW",
		"f1sp":      "{}\x00 \t{}\x00\x00R",
		"f4095p7":   mk(4095) + "\x00RAWDATA",
		"f4096p7":   mk(4096) + "\x00RAWDATA",
		"f4097p7":   mk(4097) + "\x00RAWDATA",
		"f4095f2p1": mk(4095) + "\x00{}\x00R",
		"f1huge":    "{}\x00" + c18Huge(),
		"huge":      c18Huge(),
	}
}

var c18HugeCache string

// c18Huge: 3 MiB in which every 8-byte block is distinct (a skipped, repeated or reordered block shows).
func c18Huge() string {
	if c18HugeCache == "" {
		var sb strings.Builder
		for i := 0; sb.Len() < 3<<20; i++ {
			fmt.Fprintf(&sb, "%07d.", i)
		}
		c18HugeCache = sb.String()
	}
	return c18HugeCache
}

var c18StreamOrder = []string{"p0", "p1", "p7", "pnul", "f1p7", "f1pnul", "f2p7", "f2p0", "f1big", "f4095p7", "f4096p7", "f4097p7", "f4095f2p1", "f1lf", "f1crlf", "f1sp"}

type c18State struct {
	stream string
	res    []string // per primitive: returned bytes + "|" + error
	fail   string
	done   bool
}

func c18Body(d c18Desc) func() {
	stream := c18Streams()[d.Stream]
	return func() {
		w := newWorld()
		st := &c18State{stream: stream}
		w.LC = st
		peer, mine := vnet.Pipe("u")
		live := vnet.NewCtx("live")
		conn := varlink.VerifNewCtxConn(mine)
		vsched.GoDaemon("P", func() {
			for _, c := range chunksOf(stream, d.Cuts) {
				if len(c) > 0 {
					peer.Write([]byte(c))
				}
			}
			peer.CloseWrite()
		})
		cursor := 0
		for i, op := range d.Word {
			if st.fail != "" {
				break
			}
			rest := stream[cursor:]
			if op == "B" {
				b, err := conn.ReadBytes(live, 0)
				st.res = append(st.res, fmt.Sprintf("%d|%v", len(b), err))
				j := strings.IndexByte(rest, 0)
				if j >= 0 {
					if err != nil || string(b) != rest[:j+1] {
						st.fail = fmt.Sprintf("primitive %d ReadBytes at offset %d returned %s, %v; the next frame is %s", i, cursor, q(b), err, q([]byte(rest[:j+1])))
					}
					cursor += j + 1
				} else {
					if err == nil || string(b) != rest {
						st.fail = fmt.Sprintf("primitive %d ReadBytes at offset %d (no delimiter left) returned %s, %v; want the remaining %d bytes and an error", i, cursor, q(b), err, len(rest))
					}
					cursor = len(stream)
				}
			} else if op[0] == 'D' {
				// drain: raw reads of this size until the end of the stream
				var n int
				fmt.Sscanf(op, "D%d", &n)
				buf := make([]byte, n)
				reads := 0
				for {
					k, err := conn.Read(live, buf)
					reads++
					rest := stream[cursor:]
					if err != nil {
						st.res = append(st.res, fmt.Sprintf("drain:%d reads|%v", reads, err))
						if len(rest) != 0 || k != 0 {
							st.fail = fmt.Sprintf("primitive %d: draining with Read(%d) ended with %v after %d of %d bytes of the stream", i, n, err, cursor, len(stream))
						}
						break
					}
					if k < 1 || k > n || k > len(rest) || string(buf[:k]) != rest[:k] {
						st.fail = fmt.Sprintf("primitive %d: draining Read(%d) at offset %d returned %s; the next bytes of the stream are %s", i, n, cursor, q(buf[:k]), q([]byte(rest[:min(len(rest), n)])))
						break
					}
					cursor += k
				}
			} else {
				var n int
				fmt.Sscanf(op, "R%d", &n)
				buf := make([]byte, n)
				k, err := conn.Read(live, buf)
				st.res = append(st.res, fmt.Sprintf("%d|%v", k, err))
				if len(rest) == 0 {
					if k != 0 || err == nil {
						st.fail = fmt.Sprintf("primitive %d Read(%d) at end of stream returned %d bytes, %v; want EOF", i, n, k, err)
					}
					continue
				}
				if err != nil || k < 1 || k > n || string(buf[:k]) != rest[:k] {
					st.fail = fmt.Sprintf("primitive %d Read(%d) at offset %d returned %s, %v; the next bytes of the stream are %s", i, n, cursor, q(buf[:k]), err, q([]byte(rest[:min(len(rest), n)])))
				}
				cursor += k
			}
		}
		st.done = true
	}
}

type c18Duplex struct {
	Kind string `json:"kind"`
	Buf  int    `json:"buf"`
}

func c18DuplexBody(d c18Duplex) func() {
	const prompt, answer = "prompt!!!", "answer-0123456789"
	return func() {
		w := newWorld()
		st := &c18State{stream: answer}
		w.LC = st
		peer, mine := vnet.Pipe("u")
		live := vnet.NewCtx("live")
		conn := varlink.VerifNewCtxConn(mine)
		aDone, bDone := false, false
		vsched.GoDaemon("P", func() {
			got := ""
			buf := make([]byte, 64)
			for len(got) < len(prompt) {
				n, err := peer.Read(buf)
				got += string(buf[:n])
				if err != nil {
					break
				}
			}
			if got != prompt {
				st.fail = fmt.Sprintf("the peer received %q, the connection wrote %q", got, prompt)
			}
			peer.Write([]byte(answer))
			peer.CloseWrite()
		})
		vsched.GoDaemon("A", func() {
			buf := make([]byte, d.Buf)
			got := ""
			for len(got) < len(answer) {
				k, err := conn.Read(live, buf)
				st.res = append(st.res, fmt.Sprintf("%d|%v", k, err))
				if err != nil || k < 1 || k > d.Buf || len(got)+k > len(answer) || string(buf[:k]) != answer[len(got):len(got)+k] {
					if st.fail == "" {
						st.fail = fmt.Sprintf("raw Read(%d) pending while another goroutine wrote returned %s, %v; the peer sent %q from offset %d", d.Buf, q(buf[:max(k, 0)]), err, answer, len(got))
					}
					break
				}
				got += string(buf[:k])
			}
			aDone = true
		})
		vsched.GoDaemon("B", func() {
			n, err := conn.Write(live, []byte(prompt))
			if (n != len(prompt) || err != nil) && st.fail == "" {
				st.fail = fmt.Sprintf("Write of %d bytes while a raw Read was pending returned %d, %v", len(prompt), n, err)
			}
			bDone = true
		})
		vsched.Yield("join", "H", func() bool { return aDone && bDone })
		st.done = true
	}
}

func q(b []byte) string {
	if len(b) > 40 {
		return fmt.Sprintf("%q...(%d bytes)", b[:40], len(b))
	}
	return fmt.Sprintf("%q", b)
}

func c18Obs(x *vsched.Exec) string {
	w := worldOf(x)
	if w == nil {
		return "noworld"
	}
	switch st := w.LC.(type) {
	case *c18State:
		return fmt.Sprintf("%v|%s|done=%v|parked=%v", st.res, st.fail, st.done, x.Parked)
	case *c18E2EState:
		return fmt.Sprintf("got=%q fail=%s done=%v parked=%v", st.got, st.fail, st.done, x.Parked)
	}
	return "?"
}

func c18Check(x *vsched.Exec) (string, string) {
	if x.Panic != "" {
		return "panic: " + x.Panic, "panic"
	}
	w := worldOf(x)
	switch st := w.LC.(type) {
	case *c18State:
		if st.fail != "" {
			return st.fail, "symptom=bytes-skipped-or-repeated"
		}
		if !st.done {
			return fmt.Sprintf("a read primitive never returned although the peer wrote the whole stream and closed (parked %v)", x.Parked), "symptom=read-blocks"
		}
	case *c18E2EState:
		if st.fail != "" {
			return st.fail, "symptom=upgrade-payload-lost side=" + st.side
		}
		if !st.done {
			return fmt.Sprintf("upgraded %s never received the payload that followed the frame (got %q, parked %v)", st.side, st.got, x.Parked), "symptom=upgrade-payload-lost side=" + st.side
		}
	}
	return "", ""
}

// ---- end to end: Upgrade on both sides

type c18E2EState struct {
	side string
	got  string
	fail string
	done bool
}

const c18Payload = "UPGRADED-PROTOCOL-BYTES"

type upDisp struct {
	st  *c18E2EState
	buf int
}

func (u *upDisp) VarlinkGetName() string        { return "t.up" }
func (u *upDisp) VarlinkGetDescription() string { return "interface t.up\nmethod U() -> ()\n" }
func (u *upDisp) VarlinkDispatch(ctx context.Context, c varlink.Call, method string) error {
	switch method {
	case "Plain":
		return c.Reply(ctx, map[string]int{"ok": 1})
	case "ToClient":
		// reply, then speak the upgraded protocol
		if err := c.Reply(ctx, map[string]int{"ok": 1}); err != nil {
			return err
		}
		_, err := c.Conn.Write(ctx, []byte(c18Payload))
		return err
	case "ToService":
		if !c.WantsUpgrade() {
			return c.ReplyInvalidParameter(ctx, "upgrade")
		}
		// the upgraded protocol's bytes start immediately after the request frame
		if u.buf < 0 {
			// a line-oriented upgraded protocol: delimiter reads ('-' ends a record), u.buf == -2 mixes in raw reads
			for len(u.st.got) < len(c18Payload) {
				var b []byte
				var err error
				if strings.Contains(c18Payload[len(u.st.got):], "-") && !(u.buf == -2 && len(u.st.got) == 0) {
					b, err = c.Conn.ReadBytes(ctx, '-')
				} else {
					raw := make([]byte, 3)
					var n int
					n, err = c.Conn.Read(ctx, raw)
					b = raw[:n]
				}
				u.st.got += string(b)
				if err != nil {
					u.st.fail = fmt.Sprintf("handler read failed after %q: %v", u.st.got, err)
					return err
				}
			}
			u.st.done = true
			return c.Reply(ctx, map[string]int{"ok": 1})
		}
		buf := make([]byte, u.buf)
		for len(u.st.got) < len(c18Payload) {
			n, err := c.Conn.Read(ctx, buf)
			u.st.got += string(buf[:n])
			if err != nil {
				u.st.fail = fmt.Sprintf("handler raw read failed after %q: %v", u.st.got, err)
				return err
			}
		}
		u.st.done = true
		return c.Reply(ctx, map[string]int{"ok": 1})
	}
	return c.ReplyMethodNotFound(ctx, method)
}

func c18E2EBody(d c18E2E) func() {
	return func() {
		w := newWorld()
		st := &c18E2EState{side: d.Side}
		w.LC = st
		s, _ := varlink.NewService("v", "p", "1", "u")
		s.RegisterInterface(&upDisp{st: st, buf: d.Buf})
		w.S = s
		w.Ctx = vnet.NewCtx("serve")
		l := vnet.NewListener("L0")
		live := vnet.NewCtx("live")
		vsched.GoDaemon("M", func() {
			s.VerifSetListener(l)
			s.DoListen(w.Ctx, 0)
		})
		c, err := l.Dial("c0")
		if err != nil {
			st.fail = "dial"
			return
		}
		if d.Side == "client" {
			if d.Cut == -2 {
				c.Coalesce = true
			}
			conn := varlink.VerifNewConnection(c)
			recv, err := conn.Upgrade(live, "t.up.ToClient", nil)
			if err != nil {
				st.fail = "Upgrade: " + err.Error()
				return
			}
			if d.Cut == -2 {
				// let the service write the reply and the payload before the client starts reading
				vsched.Yield("wait-both-written", "H", func() bool { return len(c.Log) >= 2 })
			}
			var out map[string]int
			_, rw, err := recv(live, &out)
			if err != nil || out["ok"] != 1 {
				st.fail = fmt.Sprintf("upgrade reply: %v %v", out, err)
				return
			}
			buf := make([]byte, d.Buf)
			for len(st.got) < len(c18Payload) {
				n, err := rw.Read(live, buf)
				st.got += string(buf[:n])
				if err != nil {
					st.fail = fmt.Sprintf("client raw read failed after %q: %v", st.got, err)
					return
				}
			}
			if st.got != c18Payload {
				st.fail = fmt.Sprintf("client read %q after the reply frame, service sent %q", st.got, c18Payload)
			}
			st.done = true
			return
		}
		// service side: a raw client sends [plain calls] + upgrade request + payload
		stream := ""
		for i := 0; i < d.Frames; i++ {
			stream += `{"method":"t.up.Plain"}` + "\x00"
		}
		req := `{"method":"t.up.ToService","upgrade":true}` + "\x00"
		switch {
		case d.Cut == -2:
			c.Peer().Coalesce = true
			c.Write([]byte(stream + req))
			c.Write([]byte(c18Payload))
		case d.Cut == -1:
			c.Write([]byte(stream + req + c18Payload))
		default:
			all := stream + req + c18Payload
			c.Write([]byte(all[:d.Cut]))
			c.Write([]byte(all[d.Cut:]))
		}
		// wait for the handler's verdict
		vsched.Yield("wait-handler", "H", func() bool { return st.done || st.fail != "" || vsched.AliveNamed("service.go:") == 0 })
		if st.done && st.got != c18Payload {
			st.fail = fmt.Sprintf("handler read %q after the request frame, client sent %q", st.got, c18Payload)
		}
	}
}

func scenariosC18(tier string) []Scen {
	var out []Scen
	streams := c18Streams()
	prims := []string{"B", "R1", "R2", "R7", "R4096", "R8192"}
	maxLen := 3
	if tier != "quick" {
		maxLen = 4
	}
	var words [][]string
	var rec func(w []string)
	rec = func(w []string) {
		if len(w) > 0 {
			words = append(words, append([]string(nil), w...))
		}
		if len(w) == maxLen {
			return
		}
		for _, p := range prims {
			rec(append(w, p))
		}
	}
	rec(nil)
	for _, sn := range c18StreamOrder {
		s := streams[sn]
		var cutsets [][]int
		cutsets = append(cutsets, nil)
		if len(s) > 0 {
			cutsets = append(cutsets, []int{-1})
		}
		var offs []int
		if len(s) < 200 {
			for i := 1; i < len(s); i++ {
				offs = append(offs, i)
			}
		} else {
			seen := map[int]bool{}
			addOff := func(o int) {
				if o > 0 && o < len(s) && !seen[o] {
					seen[o] = true
					offs = append(offs, o)
				}
			}
			for _, o := range []int{1, 2, len(s) - 1, len(s) - 7, len(s) - 8} {
				addOff(o)
			}
			for i := 0; i < len(s); i++ {
				if s[i] == 0 {
					addOff(i)
					addOff(i + 1)
					addOff(i + 2)
				}
			}
			for m := 4096; m < len(s); m += 4096 {
				addOff(m - 1)
				addOff(m)
				addOff(m + 1)
			}
		}
		for _, a := range offs {
			cutsets = append(cutsets, []int{a})
		}
		if tier != "quick" || len(s) < 12 {
			for i, a := range offs {
				for _, b := range offs[i+1:] {
					if b > a {
						cutsets = append(cutsets, []int{a, b})
					}
				}
			}
		}
		for _, cs := range cutsets {
			if len(cs) == 1 && cs[0] == -1 && len(s) > 300 {
				continue // one byte per segment only for short streams
			}
			for _, wd := range words {
				d := c18Desc{Stream: sn, Cuts: cs, Word: wd}
				out = append(out, Scen{Desc: d, Bound: 0, Body: c18Body(d), Check: c18Check, Obs: c18Obs})
			}
		}
	}
	// long raw streams (more than any internal limit or buffer) drained by raw reads after 0-1 frame reads
	for _, sn := range []string{"f1huge", "huge"} {
		n := len(streams[sn])
		for _, cs := range [][]int{nil, {3}, {1 << 20}, {1<<20 - 1, 1<<20 + 1}, {65536, 1 << 20, 2 << 20}} {
			for _, wd := range [][]string{{"B", "D65536"}, {"D65536"}, {"B", "D4096"}, {"R7", "D8192"}, {"B", "R4096", "D1048576"}} {
				if wd[0] == "B" && sn == "huge" {
					continue
				}
				_ = n
				d := c18Desc{Stream: sn, Cuts: cs, Word: wd}
				out = append(out, Scen{Desc: d, Bound: 0, Horizon: 2000000, Body: c18Body(d), Check: c18Check, Obs: c18Obs})
			}
		}
	}
	// full duplex on one connection object: a raw Read is pending while another goroutine writes
	for _, buf := range []int{1, 7, 4096} {
		d := c18Duplex{Kind: "duplex", Buf: buf}
		b := 2
		if tier != "quick" {
			b = 3
		}
		out = append(out, Scen{Desc: d, Bound: b, Body: c18DuplexBody(d), Check: c18Check, Obs: c18Obs})
	}
	// end to end
	req := `{"method":"t.up.ToService","upgrade":true}` + "\x00"
	for _, buf := range []int{1, 7, 4096, -1, -2} {
		for _, cut := range []int{-2, -1} {
			if buf < 0 {
				continue // negative: the service handler reads with the delimiter primitive
			}
			d := c18E2E{Side: "client", Cut: cut, Buf: buf}
			out = append(out, Scen{Desc: d, Bound: 2, Body: c18E2EBody(d), Check: c18Check, Obs: c18Obs})
		}
		for frames := 0; frames <= 1; frames++ {
			total := frames*len(`{"method":"t.up.Plain"}`+"\x00") + len(req) + len(c18Payload)
			for cut := -2; cut < total; cut++ {
				if cut == 0 {
					continue
				}
				d := c18E2E{Side: "service", Cut: cut, Buf: buf, Frames: frames}
				b := 0
				if cut < 0 {
					b = 2
				}
				out = append(out, Scen{Desc: d, Bound: b, Body: c18E2EBody(d), Check: c18Check, Obs: c18Obs})
			}
		}
	}
	// the two primitives mixed on one connection while one of them is given up (cancelled, timed out, or cancelled
	// under a context that also has a deadline): C17's scenarios whose operations include both a delimiter read and
	// a raw read; whatever the abandoned operation had consumed, the later ones never deliver a byte out of order,
	// twice, or from behind bytes that are still to come
	for _, sc := range scenariosC17(tier) {
		d, ok := sc.Desc.(c17Desc)
		if !ok {
			continue
		}
		ops := strings.Join(d.Ops, "")
		mixed := strings.Contains(ops, "B") && strings.Contains(ops, "R")
		if strings.Contains(ops, "W") || !(mixed || d.Kind == "dlcancel" && len(d.Ops) == 2) {
			continue
		}
		inner := sc.Check
		sc.Check = func(x *vsched.Exec) (string, string) {
			msg, key := inner(x)
			if strings.HasPrefix(key, "race ") {
				return "", ""
			}
			return msg, key
		}
		if tier == "quick" && sc.Bound > 2 {
			sc.Bound = 2
		}
		out = append(out, sc)
	}
	return out
}
