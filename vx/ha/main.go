// ha: engine-A harness binary. It is built with the instrumentation overlay, so
// the varlink packages it links are the current working tree of /repo rewritten
// to run under vx/vsched.
package main

import (
	"flag"
	"fmt"
	"os"
)

var props = map[string]func(tier string) []Scen{
	"C01": scenariosC01,
	"C02": scenariosC02,
	"C03": scenariosC03,
	"C04": scenariosC04,
	"C10": scenariosC10,
	"C11": scenariosC11,
	"C12": scenariosC12,
	"C13": scenariosC13,
	"C14": scenariosC14,
	"C17": scenariosC17,
	"C18": scenariosC18,
	"C15": scenariosC15,
	"C16": scenariosC16,
}

const ruleA = "every scenario (a closed thread set with scripts) is explored exhaustively by depth-first search over scheduler/environment choice sequences up to the stated deviation bound (delay bounding: base schedule is non-preemptive round-robin, taking the k-th other enabled thread costs k); every execution runs the real code of /repo's working tree (instrumented through go build -overlay) to quiescence; states = choice points visited in the explored tree, transitions = scheduling steps executed, traces_validated_against_impl = executions; distinct_nontrivial = distinct final observations (event log, return values, bytes received per client, handler invocation log)"

var rules = map[string]string{
	"C01": ruleA + "; scenarios = call scripts (target x flags x handler reply script) on 1-3 connections x segmentations of the request bytes; per connection the frames received and the handler invocation log are compared with a sequential reference model of that connection alone",
	"C10": ruleA + "; scenarios = frame-kind sequences (valid calls, wrong-shape JSON, invalid JSON, empty frame, 5 KiB frame, unterminated tail) x the byte offset at which the client stops x how it goes away (half-close, close, abort) x injected reply-write failure, with a well-behaved probe connection and a final Shutdown; schedule deviations are explored at frame-boundary offsets",
	"C13": ruleA + "; scenarios = all histories up to the length bound over {register(name, description) for 6 name/description pairs incl. duplicates, the built-in name and a resolver, serve, shutdown, query}; a query runs the library's own client helpers (GetInfo, GetInterfaceDescription for every mentioned name, its prefix, case variant and extension, Resolver.GetInfo/Resolve) over a controlled connection and compares with a list+map reference model",
	"C04": "bounded-exhaustive enumeration executed on the real Service under the controlled scheduler (default schedule): every dot-joined sequence of <=4 tokens over {empty, a, b, A, é, org, varlink, service, GetInfo} plus near-misses (prefix, extension, case variant, doubled/leading/trailing dots, spaces) of every registrable name, against every set of <=3 registered names out of 7; one scenario = one batch of 400 method strings sent on one connection (so each answer also shows the connection stayed usable) or the family of 21 frames that are not calls, each on its own connection followed by a GetInfo; oracle = independent routing model (strings.Split) + per-dispatcher invocation log; states = distinct (set, batch) cases, transitions = scheduling steps; distinct_nontrivial = distinct observations",
	"C12": "bounded-exhaustive enumeration executed on the real Service and Connection under the controlled scheduler (default schedule): every dot-joined error name of <=4 (thorough <=5) tokens over {empty, org, varlink, service, x, E, é} plus near-misses of the reserved namespace x 5 parameter documents (none, {}, nested, unicode, integer beyond 2^53 and an exponent), sent by a handler through ReplyError and received through Connection.Call; the four typed helpers x 4 argument strings; and the client mapping alone against a scripted raw server (well-shaped, absent, null and ill-shaped parameters); oracle = independent name classifier + raw-JSON equality (numbers as text) + wire frame; names whose last part is empty are counted as unspecified",
	"C11": "bounded-exhaustive enumeration with fault enumeration, executed on the real Connection under the controlled scheduler (default schedule): reply streams of <=2 frames over 19 frame kinds (well-shaped, error, typed error, null, wrong JSON type, wrong member type, truncated, non-UTF-8, empty, 70 KiB) x {server closes, server resets} after EVERY byte offset, and the full stream under every single cut; APIs Send+receive (receive called once more than there are frames), Call, Upgrade; all 16 flag words; one scenario = one stream x mode, looping over all offsets on fresh connections; oracle = independent reply classifier; states = distinct cases (stream, mode, api), transitions = scheduling steps",
	"C02": "bounded-exhaustive enumeration executed on the real Connection and Service under the controlled scheduler (default schedule). Emission: every value of an adversarial alphabet (strings with NUL, quotes, every C0 control, non-BMP, invalid UTF-8, each also as object key; nesting 1..2000; strings/arrays at 4095/4096/4097/65535/65536/1 MiB (thorough 4 and 8 MiB); big integers as raw JSON; unencodable values) travels as call parameter, reply, more-reply, error parameter and inside a built-in error reply; both captured byte streams must split at NUL into syntactically valid JSON objects (checked by an independent recogniser, not encoding/json), end in NUL, contain no empty piece, and every write is one frame. Reception: message sequences over sizes {60, 4095, 4096, 4097, 70000} in both directions under no cut, every single cut at all/boundary offsets, cut pairs, and one byte per segment; the recovered sequence must equal the sent one",
	"C03": "bounded-exhaustive enumeration executed on the real Connection and Service under the controlled scheduler (default schedule): all JSON objects with <=2 members over keys {a, é, empty} whose values are built to depth 1 (thorough 2) from 15 leaves (null, booleans, 0, -0, -1, 2^53+1, 2^64, 1.5, 1E+2, 1e-7, empty string, a string with é NUL and a non-BMP character, {}, []) plus hand-picked texts (whitespace, escapes, 1e400), sent as raw JSON through Call and Send+receive, echoed by a handler that reads them with GetParameters; all more-sequences of length 0..3 over 4 documents; typed Go values (int64/uint64 extremes, floats, maps, optional members); oracle = raw-JSON equality (token-wise, numbers compared as text) at the handler and at the client, continues on all replies but the last",
	"C14": ruleA,
	"C18": "bounded-exhaustive enumeration, each case executed once (default schedule; end-to-end cases with up to 2 schedule deviations) on the real ctxio.Conn over a controlled connection: all words up to the length bound over {ReadBytes(NUL), Read(1), Read(2), Read(7), Read(4096), Read(8192)} x 13 streams (0-2 frames incl. 4095/4096/4097-byte frames, payloads incl. one containing NUL and one larger than the reader's buffer) x segmentations (none, every 1-cut, 2-cuts, one byte per segment; boundary offsets for long streams); oracle = cursor into the stream; states = distinct cases, transitions = scheduling steps, distinct_nontrivial = distinct observations",
	"C17": ruleA + "; scenarios = sequences of <=3 operations {ReadBytes, raw Read, Write} on a ctxio connection, the first 1-2 under a cancellable context x cancel|deadline x 3 segmentations of the peer stream x a coarse gate (operation index, chunks written) after which the cancellation step becomes enabled; the scheduler then places the cancellation (and, for deadlines, the connection's own deadline expiry, in both orders) at every point within the bound",
	"C16": ruleA + "; in every execution a vector-clock happens-before monitor (edges: spawn, thread end->WaitGroup.Wait, Unlock->Lock, channel send->receive, cancel->observing Done, peer write->read, SetDeadline/Close->the I/O they fail) checks every instrumented read/write of a field of a struct declared in packages varlink/ctxio (fields never written after construction are skipped) for a conflicting HB-unordered access",
	"C15": ruleA + "; accept-deadline expiries are events of a timer thread, enabled whenever the controlled listener is armed, so the explorer places each expiry at every instant",
}

var assumptions = map[string][]string{
	"C03": {"documents are passed as json.RawMessage so that digit-for-digit is meaningful; typed values go through encoding/json on both ends", "this part runs on the controlled in-memory transport; the four real transports are exercised by the transport stage (hb) with the depth-1 alphabet"},
	"C02": {"values are an alphabet chosen around escaping rules and buffer sizes, not all JSON documents; multi-megabyte values only at the listed sizes", "segment boundaries are exactly the listed cuts (vnet returns at most one segment per read)"},
	"C11": {"refReply restates the reply shape with encoding/json as a generic decoder; {\"error\":\"\"} is counted as unspecified", "after a reset any error is accepted for an incomplete frame; after an orderly close it must be io.ErrUnexpectedEOF", "out parameters are decoded into interface{}"},
	"C12": {"names and parameters come from alphabets (valid UTF-8); raw-JSON equality uses encoding/json as a generic decoder with UseNumber", "ill-shaped parameters of org.varlink.service errors: only 'an error naming it, no panic' is required"},
	"C04": {"method strings are valid UTF-8 over the token alphabet; the replies of the two real built-in methods are only checked for being exactly one reply (their content is C13's)", "classifyCall decides which frames are calls"},
	"C18": {"a read on the controlled connection returns (a prefix of) the oldest unread segment, so segment boundaries are exactly the listed cuts; Coalesce models the network merging two writes", "streams are a small alphabet chosen around the 4096-byte bufio buffer"},
	"C13": {"reference model: names in registration order after org.varlink.service, descriptions verbatim, registration refused iff duplicate or serving (serving = the serving call is blocked in Accept)", "identity and description strings are valid UTF-8 from a small adversarial alphabet incl. a 76 KiB description", "the race aspect of registering while serving is C16's"},
	"C17": {"vnet.Conn implements the documented net.Conn deadline semantics (a deadline in the past fails pending and future I/O with a Timeout error, the zero deadline clears it); whether a real transport does is the subject of the separate transport matrix", "a context deadline is a far-future time plus two events: the context expiring and the connection deadline firing", "stream oracle: bytes may be lost only if they had arrived before a cancelled operation returned"},
	"C10": {"classifyCall restates 'a JSON value of the call's shape' with encoding/json used only as a generic decoder", "when the peer has closed or aborted, what was answered and dispatched must be a prefix of the reference (how far the service got is schedule dependent); with a half-close it must equal the reference", "vnet: abort discards unread data and fails reads with ECONNRESET, writes to a closed or aborted peer fail with EPIPE"},
	"C01": {"reference model refConn restates the property text (call order, accepted reply attempts only, oneway silence, continues needs more, handler error ends the connection)", "clients are raw byte writers that half-close after their script, so reply writes never fail", "vnet semantics and scheduling-point sufficiency as for C14"},
	"C16": {"only accesses vinstr instruments are monitored: selector expressions naming fields of struct types declared in packages varlink and ctxio, method calls through pointer-to-struct fields (e.g. the bufio.Reader), package-level variables; memory touched only inside the standard library is not seen", "the list of happens-before edges is complete for the primitives the library uses (sync.Mutex/WaitGroup, buffered channels, context, net.Conn/net.Listener internal locking)", "intended concurrent use = API operations issued after the serving call has been entered; one goroutine at a time per client connection"},
	"C15": {"an expired accept deadline makes Accept return a timeout error even if a connection is queued (as Go's netpoller does); SetDeadline re-arms", "the value passed to SetDeadline is not interpreted: time is the timer thread's events", "vnet semantics and scheduling-point sufficiency as for C14"},
	"C14": {"vnet.Listener/vnet.Conn implement the documented net.Listener/net.Conn semantics (Close fails a pending Accept, reads return EOF after orderly close, ECONNRESET after abort)", "scheduling points at every sync op, channel op, select, instrumented field access and vnet method are sufficient: code between two points touches no shared state other than through those", "deviation bound and scenario alphabet as listed in coverage; nothing beyond them is claimed"},
}

func main() {
	flag.Parse()
	if flag.NArg() < 1 {
		fmt.Fprintln(os.Stderr, "usage: ha [flags] <property>")
		os.Exit(2)
	}
	prop := flag.Arg(0)
	mk, ok := props[prop]
	if !ok {
		fmt.Fprintln(os.Stderr, "unknown property", prop)
		os.Exit(2)
	}
	scens := mk(*flagTier)
	if *flagReplay != "" {
		os.Exit(doReplay(prop, scens, *flagReplay))
	}
	res := runScens(prop, scens)
	res.Rule = rules[prop]
	res.Assume = assumptions[prop]
	emit(res)
	if res.Infra != "" {
		fmt.Fprintln(os.Stderr, "INFRA:", res.Infra)
		os.Exit(2)
	}
}
