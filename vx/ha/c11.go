package main

import (
	"context"
	"encoding/json"
	"fmt"
	"io"
	"strings"

	"github.com/varlink/go/varlink"
	"vx/vnet"
	"vx/vsched"
)

// ---------------------------------------------------------------------------------------------
// C11: the client decodes exactly what was sent and fails cleanly otherwise.

var c11Frames = map[string]string{
	"empty":     `{}`,
	"params":    `{"parameters":{"a":1}}`,
	"cont":      `{"continues":true,"parameters":{}}`,
	"err":       `{"error":"x.y.E","parameters":{"k":"v"}}`,
	"mnf":       `{"error":"org.varlink.service.MethodNotFound","parameters":{"method":"M"}}`,
	"mnfbad":    `{"error":"org.varlink.service.MethodNotFound","parameters":{"method":5}}`,
	"null":      `null`,
	"array":     `[]`,
	"number":    `5`,
	"string":    `"s"`,
	"contx":     `{"continues":"x"}`,
	"err5":      `{"error":5}`,
	"params5":   `{"parameters":5}`,
	"errempty":  `{"error":""}`,
	"trunc":     `{"parameters":`,
	"badutf":    "\xff",
	"zero":      ``,
	"big":       `{"parameters":{"s":"` + strings.Repeat("y", 70000) + `"}}`,
	"contfalse": `{"continues":false,"parameters":{"b":[1,2]},"extra":null}`,
	"errnop":    `{"error":"x.y.E"}`,
	"errnullp":  `{"error":"x.y.E","parameters":null}`,
	"mnfnop":    `{"error":"org.varlink.service.MethodNotFound"}`,
	"ipnullp":   `{"error":"org.varlink.service.InvalidParameter","parameters":null}`,
	// error names no conforming service sends: no dot at all, only a dot, an empty interface part, an unknown name in the reserved namespace
	"errnodot": `{"error":"Failed"}`,
	"errdot":   `{"error":".","parameters":{"k":"v"}}`,
	"errlead":  `{"error":".MethodNotFound","parameters":{"method":"M"}}`,
	"errsvcx":  `{"error":"org.varlink.service.Unknown","parameters":{"x":1}}`,
	// a complete JSON value with something behind it: not a JSON text
	// both an error and a continues flag: an error frame
	"errcont":     `{"error":"x.y.E","continues":true,"parameters":{"k":"v"}}`,
	"mnfcont":     `{"continues":true,"error":"org.varlink.service.MethodNotFound","parameters":{"method":"M"}}`,
	"tailbrace":   `{"parameters":{"a":1}}}`,
	"tailbracket": `null]`,
	"tailobj":     `{"continues":true}{"error":"x.y.E"}`,
	"tailword":    `{} x`,
	"tailcomma":   `{"parameters":{}},`,
}

var c11Order = []string{"empty", "params", "cont", "err", "mnf", "mnfbad", "null", "array", "number", "string", "contx", "err5", "params5", "errempty", "trunc", "badutf", "zero", "big", "contfalse", "errnop", "errnullp", "mnfnop", "ipnullp", "errnodot", "errdot", "errlead", "errsvcx", "tailbrace", "tailbracket", "tailobj", "tailword", "tailcomma", "errcont", "mnfcont"}

type c11Desc struct {
	Frames []string `json:"frames,omitempty"`
	Mode   string   `json:"mode"` // eof | reset : how the server goes away after the delivered prefix; cuts: full stream under every 1-cut; flags: the 16 flag words
	API    string   `json:"api"`  // send | call | upgrade
}

type c11State struct {
	fail  string
	cases int
	done  bool
}

// refReply restates what one complete frame means to the client.
// kind: "ok" (cont, params), "remote" (name), "bad" (must be an error), "unspec"
func refReply(frame string) (kind string, cont bool, params interface{}, name string) {
	var v interface{}
	if err := json.Unmarshal([]byte(frame), &v); err != nil {
		return "bad", false, nil, ""
	}
	if v == nil {
		return "ok", false, nil, ""
	}
	o, ok := v.(map[string]interface{})
	if !ok {
		return "bad", false, nil, ""
	}
	if e, has := o["error"]; has && e != nil {
		s, ok := e.(string)
		if !ok {
			return "bad", false, nil, ""
		}
		if s == "" {
			return "unspec", false, nil, ""
		}
		name = s
	}
	if c, has := o["continues"]; has && c != nil {
		b, ok := c.(bool)
		if !ok {
			return "bad", false, nil, ""
		}
		cont = b
	}
	if name != "" {
		return "remote", false, o["parameters"], name
	}
	return "ok", cont, o["parameters"], ""
}

func c11Body(d c11Desc) func() {
	return func() {
		w := newWorld()
		st := &c11State{}
		w.LC = st
		fail := func(format string, a ...interface{}) {
			if st.fail == "" {
				st.fail = fmt.Sprintf(format, a...)
			}
		}
		live := vnet.NewCtx("live")
		if d.Mode == "flags" {
			c11Flags(st, fail, live)
			st.done = true
			return
		}
		stream := ""
		for _, f := range d.Frames {
			stream += c11Frames[f] + "\x00"
		}
		n := len(stream)
		var offsets []int
		if n > 2000 {
			for o := 0; o <= n; o += 4096 {
				for _, dd := range []int{-1, 0, 1} {
					if o+dd >= 0 && o+dd <= n {
						offsets = append(offsets, o+dd)
					}
				}
			}
			for _, dd := range []int{n - 2, n - 1, n} {
				offsets = append(offsets, dd)
			}
		} else {
			for o := 0; o <= n; o++ {
				offsets = append(offsets, o)
			}
		}
		for _, off := range offsets {
			var chunks []string
			end := d.Mode
			switch d.Mode {
			case "cuts":
				// the whole stream, split at off, then an orderly close
				if off == 0 || off == n {
					chunks = []string{stream}
				} else {
					chunks = []string{stream[:off], stream[off:]}
				}
				end = "eof"
			default:
				chunks = []string{stream[:off]}
			}
			delivered := strings.Join(chunks, "")
			peer, mine := vnet.Pipe(fmt.Sprintf("u%d", off))
			conn := varlink.VerifNewConnection(mine)
			vsched.GoDaemon("P", func() {
				p := &rawPeer{c: peer}
				if _, ok := p.readFrame(); !ok {
					return
				}
				for _, c := range chunks {
					if len(c) > 0 {
						peer.Write([]byte(c))
					}
				}
				if end == "reset" {
					peer.Abort()
				} else {
					peer.Close()
				}
			})
			st.cases++
			var recv func(context.Context, interface{}) (uint64, error)
			var err error
			switch d.API {
			case "call":
				var out interface{}
				err = conn.Call(live, "a.b.M", map[string]int{"x": 1}, &out)
				c11Judge(fail, d, off, 0, delivered, end, 0, err, out, nil)
				// the server is gone (it has closed its end): a further call was never delivered, so nothing it
				// "receives" is its reply - whatever is still buffered from before
				vsched.Yield("wait-server-gone", "H", func() bool { return peer.IsClosed() })
				var out2 interface{}
				if err2 := conn.Call(live, "a.b.After", nil, &out2); err2 == nil {
					fail("stream %v delivered up to offset %d, then the server closed: a second Call, made after that, reported success with %s", d.Frames, off, jstr(out2))
				}
				if _, err3 := conn.Send(live, "a.b.After", nil, varlink.Oneway); err3 == nil {
					fail("stream %v delivered up to offset %d, then the server closed: a oneway Send made after that reported success", d.Frames, off)
				}
				continue
			case "upgrade":
				up, uerr := conn.Upgrade(live, "a.b.M", nil)
				if uerr != nil {
					fail("Upgrade send failed: %v", uerr)
					continue
				}
				var out interface{}
				fl, rw, rerr := up(live, &out)
				c11Judge(fail, d, off, 0, delivered, end, fl, rerr, out, rw)
				continue
			default:
				recv, err = conn.Send(live, "a.b.M", nil, varlink.More)
				if err != nil {
					fail("Send failed: %v", err)
					continue
				}
			}
			rest := delivered
			for k := 0; k <= len(d.Frames); k++ {
				var out interface{}
				fl, rerr := recv(live, &out)
				consumed := c11Judge(fail, d, off, k, rest, end, fl, rerr, out, nil)
				if consumed < 0 || st.fail != "" {
					break
				}
				rest = rest[consumed:]
			}
			if st.fail != "" {
				break
			}
		}
		st.done = true
	}
}

// c11Judge checks one receive against the reference; rest is the undelivered-to-the-client remainder
// of what the server sent. It returns the number of bytes the receive consumed, or -1 at end of stream.
func c11Judge(fail func(string, ...interface{}), d c11Desc, off, k int, rest, end string, fl uint64, err error, out interface{}, rw varlink.ReadWriterContext) int {
	where := fmt.Sprintf("frames %v delivered up to offset %d (%s), receive #%d", d.Frames, off, end, k)
	if end == "reset" && err != nil && strings.Contains(err.Error(), "connection reset") {
		// an abortive close may discard data that was already delivered: any receive may fail with the reset
		return -1
	}
	i := strings.IndexByte(rest, 0)
	if i < 0 {
		// the stream ends before the frame's NUL
		if err == nil {
			fail("%s: the stream ended before a complete frame (remaining %s) but receive reported success (flags %d, out %v)", where, q([]byte(rest)), fl, out)
			return -1
		}
		if end == "eof" && err != io.ErrUnexpectedEOF {
			fail("%s: the stream ended (orderly) before the frame's NUL: error is %v, want io.ErrUnexpectedEOF", where, err)
		}
		return -1
	}
	frame := rest[:i]
	kind, cont, params, name := refReply(frame)
	switch kind {
	case "bad":
		if err == nil {
			fail("%s: frame %s is not a JSON object of the reply's shape but receive reported success (out %v)", where, q([]byte(frame)), out)
		}
	case "remote":
		if err == nil {
			fail("%s: error frame %s but receive reported success", where, q([]byte(frame)))
		} else if !strings.Contains(err.Error(), name) {
			fail("%s: error frame naming %q but receive returned %T %v", where, name, err, err)
		} else if name == "x.y.E" {
			e, ok := err.(*varlink.Error)
			if !ok || e.Name != name {
				fail("%s: remote error arrived as %T %v", where, err, err)
			} else if raw, _ := e.Parameters.(*json.RawMessage); strings.Contains(frame, `"parameters":{`) && (raw == nil || !rawJSONEqual(*raw, []byte(`{"k":"v"}`))) {
				fail("%s: remote error parameters changed", where)
			} else if !strings.Contains(frame, `"parameters":{`) && raw != nil && string(*raw) != "null" {
				// an error frame without parameters (absent or null) carries none
				fail("%s: remote error without parameters arrived with %s", where, string(*raw))
			}
		}
	case "ok":
		if err != nil {
			fail("%s: complete well-shaped frame %s but receive failed: %v", where, q([]byte(frame)), err)
			break
		}
		if d.API != "call" && ((fl&varlink.Continues != 0) != cont || fl&^uint64(varlink.Continues) != 0) {
			fail("%s: frame %s: flags %d, want continues=%v and nothing else", where, q([]byte(frame)), fl, cont)
		}
		if params != nil && !jsonEqual(out, params) {
			fail("%s: frame %s: decoded parameters %v", where, q([]byte(frame)), short(jstr(out)))
		}
		if d.API == "upgrade" && rw == nil {
			fail("%s: Upgrade succeeded without returning the connection", where)
		}
	}
	return i + 1
}

// c11Flags: all 16 flag words; forbidden combinations are refused before anything is written.
func c11Flags(st *c11State, fail func(string, ...interface{}), live *vnet.Ctx) {
	for fl := uint64(0); fl < 16; fl++ {
		peer, mine := vnet.Pipe(fmt.Sprintf("f%d", fl))
		conn := varlink.VerifNewConnection(mine)
		st.cases++
		_, err := conn.Send(live, "a.b.M", map[string]int{"x": 1}, fl)
		forbidden := (fl&varlink.More != 0 && fl&varlink.Oneway != 0) || (fl&varlink.More != 0 && fl&varlink.Upgrade != 0)
		wire := string(peer.Received())
		if forbidden {
			if err == nil || wire != "" {
				fail("flags %04b are forbidden (more with oneway/upgrade): Send returned %v and wrote %q; want an error and nothing written", fl, err, wire)
			}
			continue
		}
		if err != nil {
			fail("flags %04b: Send failed: %v", fl, err)
			continue
		}
		if !strings.HasSuffix(wire, "\x00") || strings.Count(wire, "\x00") != 1 {
			fail("flags %04b: wire %q is not one NUL-terminated frame", fl, wire)
			continue
		}
		var m map[string]interface{}
		if json.Unmarshal([]byte(wire[:len(wire)-1]), &m) != nil {
			fail("flags %04b: wire %q is not JSON", fl, wire)
			continue
		}
		want := map[string]interface{}{"method": "a.b.M", "parameters": map[string]interface{}{"x": float64(1)}}
		if fl&varlink.More != 0 {
			want["more"] = true
		}
		if fl&varlink.Oneway != 0 {
			want["oneway"] = true
		}
		if fl&varlink.Upgrade != 0 {
			want["upgrade"] = true
		}
		if !jsonEqual(m, want) {
			fail("flags %04b: frame on the wire %s, want exactly %s", fl, wire[:len(wire)-1], jstr(want))
		}
	}
}

func c11Obs(x *vsched.Exec) string {
	w := worldOf(x)
	if w == nil {
		return "noworld"
	}
	st := w.LC.(*c11State)
	return fmt.Sprintf("cases=%d fail=%s done=%v panic=%v", st.cases, st.fail, st.done, x.Panic != "")
}

func c11Check(x *vsched.Exec) (string, string) {
	if x.Panic != "" {
		return "panic: " + x.Panic, "panic"
	}
	w := worldOf(x)
	st := w.LC.(*c11State)
	if st.fail != "" {
		k := "wrong-decode"
		switch {
		case strings.Contains(st.fail, "ended before"):
			k = "incomplete-frame-accepted"
		case strings.Contains(st.fail, "stream ended (orderly)"):
			k = "eof-not-mapped"
		case strings.Contains(st.fail, "not a JSON object of the reply"):
			k = "ill-shaped-frame-accepted"
		case strings.Contains(st.fail, "flags "):
			k = "flags"
		case strings.Contains(st.fail, "error frame"):
			k = "remote-error-lost"
		}
		return st.fail, "symptom=" + k
	}
	if !st.done {
		return fmt.Sprintf("a client call never returned (parked %v)", x.Parked), "symptom=client-call-hangs"
	}
	return "", ""
}

func scenariosC11(tier string) []Scen {
	var out []Scen
	add := func(d c11Desc) {
		out = append(out, Scen{Desc: d, Bound: 0, Horizon: 50000000, Body: c11Body(d), Check: c11Check, Obs: c11Obs, Cases: c11Cases})
	}
	var streams [][]string
	for _, a := range c11Order {
		streams = append(streams, []string{a})
	}
	for _, a := range c11Order {
		for _, b := range c11Order {
			if a == "big" || b == "big" {
				if tier == "quick" || (a == "big" && b == "big") {
					continue
				}
			}
			streams = append(streams, []string{a, b})
		}
	}
	for _, fs := range streams {
		for _, mode := range []string{"eof", "reset", "cuts"} {
			add(c11Desc{Frames: fs, Mode: mode, API: "send"})
		}
		if len(fs) == 1 {
			for _, api := range []string{"call", "upgrade"} {
				for _, mode := range []string{"eof", "reset", "cuts"} {
					add(c11Desc{Frames: fs, Mode: mode, API: api})
				}
			}
		}
	}
	d := c11Desc{Mode: "flags", API: "send"}
	out = append(out, Scen{Desc: d, Bound: 1, Body: c11Body(d), Check: c11Check, Obs: c11Obs, Cases: c11Cases})
	return out
}

func c11Cases(x *vsched.Exec) int {
	if w := worldOf(x); w != nil {
		if st, ok := w.LC.(*c11State); ok {
			return st.cases
		}
	}
	return 0
}
