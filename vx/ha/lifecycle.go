package main

import (
	"fmt"
	"net"
	"strings"
	"time"

	"github.com/varlink/go/varlink"
	"vx/vnet"
	"vx/vsched"
)

// lcDesc describes one lifecycle scenario (C14 / C15): a set of threads whose
// interleavings are the histories of the property.
type lcDesc struct {
	Conns     []string `json:"conns"`           // connection scripts, round 0
	Shutdowns int      `json:"shutdowns"`       // Shutdown calls (one thread each)
	B         string   `json:"b"`               // "", "bind", "listen": issued while serving
	Cancel    bool     `json:"cancel"`          // a thread cancels the serving context
	Rounds    int      `json:"rounds"`          // serving rounds on the same Service object
	Late      bool     `json:"late"`            // a client that dials only after a Shutdown has returned
	Timeout   bool     `json:"timeout"`         // serve with an idle timeout (C15)
	Fires     int      `json:"fires"`           // accept-deadline expiries available to the timer thread
	AccFail   bool     `json:"accfail,omitempty"` // the first Accept that finds a client waiting fails with a temporary (non-timeout) error
	Plain     int      `json:"plain,omitempty"` // with Timeout and two rounds: round Plain-1 is served without a timeout (0 = every round has one)
	NoListener bool    `json:"nolistener,omitempty"` // before the first round DoListen is called on the service while no listener is installed (it must fail and leave the service as it was)
	OwnCtx    bool     `json:"ownctx,omitempty"` // every round is served under its own context, cancelled by the caller as soon as the serving call has returned (defer cancel())
	Via       string   `json:"via"`             // "dolisten": install a listener + DoListen; "listen": Listen(address) with the network listen hooked onto the controlled listener
}

type lcState struct {
	d         lcDesc
	Ls        []*vnet.Listener
	bound     []int
	ret       []int
	retVal    []string
	retPeek   []string
	shutStart []int
	shutRet   []int
	shutPark  []int // round whose Accept M was parked in when this Shutdown started, or -1
	shutRound []int
	lateDial  int
	lateOK    bool
	bStart    int
	bEnd      int
	bErr      string
	bPre      string
	bPost     string
	bServing  bool
	negCount  bool
	fireAt    []int    // event time of each expiry
	fireOpen  []string // connection phases at each expiry
	fireRound []int
	expObs    []string
	tos       []*toRec
	hooked    []bool
	nextBind  int
	pendingTO *toRec
	preErr    string
}

// toRec records one accept time-out as seen by the serving loop: the state when Accept returned the
// time-out error and the loop's next listener operation (re-arm = keeps serving, close = stops).
type toRec struct {
	round      int
	handlers   int // handler threads alive when Accept returned the time-out
	queued     int
	nextOp     string
	openAtNext []string
	shutSeen   bool // a Shutdown had been issued before the loop acted: the loop may stop for that reason
}

var connScripts = map[string]struct {
	chunks []string
	end    string
}{
	"call":      {[]string{"{\"method\":\"t.a.R\"}\x00"}, "close"},
	"callhalf":  {[]string{"{\"method\":\"t.a.R\"}\x00"}, "half"},
	"abortmid":  {[]string{"{\"method\":\"t.a"}, "abort"},
	"reset":     {nil, "abort"},
	"herr":      {[]string{"{\"method\":\"t.a.X\"}\x00"}, "half"},
	"block":     {[]string{"{\"method\":\"t.a.B\"}\x00"}, "half"},
	"idleclose": {nil, "close"},
	// a Quit method: the handler calls Shutdown itself and then replies
	"quit": {[]string{"{\"method\":\"t.a.SR\"}\x00"}, "half"},
	"callhold":  {[]string{"{\"method\":\"t.a.R\"}\x00"}, "hold"},
	// the same, but it connects only after every earlier connection has been handled to the end (the service has
	// been idle in between)
	"latehold": {[]string{"{\"method\":\"t.a.R\"}\x00"}, "hold"},
	"two":       {[]string{"{\"method\":\"t.a.R\"}\x00{\"method\":\"org.varlink.service.GetInfo\"}\x00"}, "half"},
	// introspection only: these calls never pass through the dispatch-table lookup, so nothing but their own
	// locking orders them with a registration
	"info": {[]string{"{\"method\":\"org.varlink.service.GetInfo\"}\x00"}, "half"},
	"desc": {[]string{"{\"method\":\"org.varlink.service.GetInterfaceDescription\",\"parameters\":{\"interface\":\"t.a\"}}\x00"}, "half"},
}

func peek(s *varlink.Service, ls []*vnet.Listener) string {
	running, l, cnt, proto, addr := s.VerifPeek()
	if cnt == varlink.VerifUnknown {
		// the tree keeps no such counter: count the accepted connections the service has not closed
		cnt = 0
		for _, x := range ls {
			for _, c := range x.Accepted {
				if !c.IsClosed() {
					cnt++
				}
			}
		}
	}
	ln := "nil"
	if l != nil {
		ln = "other"
		for i, x := range ls {
			if net.Listener(x) == l {
				ln = fmt.Sprintf("L%d", i)
			}
		}
	}
	return fmt.Sprintf("running=%v listener=%s count=%d proto=%q addr=%q", running, ln, cnt, proto, addr)
}

// timed: is round r served with an idle timeout
func (d lcDesc) timed(r int) bool { return d.Timeout && d.Plain != r+1 }

func lcBody(d lcDesc) func() {
	return func() {
		w := newWorld()
		w.newService("t.a")
		w.Ctx = vnet.NewCtx("serve")
		st := &lcState{d: d, lateDial: -1}
		w.LC = st
		for r := 0; r < d.Rounds; r++ {
			l := vnet.NewListener(fmt.Sprintf("L%d", r))
			r := r
			if d.AccFail {
				l.TempFail = 1
			}
			l.Hook = func(ev string) {
				if vsched.Cur().Name != "M" {
					return
				}
				if p := st.pendingTO; p != nil {
					p.nextOp = ev
					for k, t := range st.shutStart {
						// a Shutdown that had returned before this round was bound concerned an earlier round
						if t != 0 && (st.shutRet[k] == 0 || st.shutRet[k] > st.bound[r]) {
							p.shutSeen = true
						}
					}
					for _, c := range l.Accepted {
						if !c.IsClosed() {
							p.openAtNext = append(p.openAtNext, c.Name)
						}
					}
					st.pendingTO = nil
				}
				if ev == "accept-timeout" {
					p := &toRec{round: r, handlers: vsched.AliveNamed("service.go:"), queued: l.Queued()}
					st.tos = append(st.tos, p)
					st.pendingTO = p
				}
			}
			st.Ls = append(st.Ls, l)
			st.bound = append(st.bound, 0)
			st.ret = append(st.ret, 0)
			st.retVal = append(st.retVal, "")
			st.retPeek = append(st.retPeek, "")
			st.hooked = append(st.hooked, false)
		}
		vsched.ListenHook = func(network, address string) (interface{}, error) {
			if network != "unix" || address != "@vx" {
				return nil, fmt.Errorf("vnet: cannot listen on %s:%s", network, address)
			}
			st.hooked[st.nextBind] = true
			return st.Ls[st.nextBind], nil
		}
		// stamp records the moment a Listen-bound round is first seen bound (its listener installed)
		stamp := func() {
			if d.Via != "listen" {
				return
			}
			_, cur, _, _, _ := w.S.VerifPeek()
			for r := 0; r < d.Rounds; r++ {
				if st.bound[r] == 0 && st.hooked[r] && cur == net.Listener(st.Ls[r]) {
					st.bound[r] = w.ev("bound %d", r)
				}
			}
		}
		isBound := func(r int) bool {
			if st.bound[r] != 0 {
				return true
			}
			if d.Via == "listen" && st.hooked[r] {
				_, cur, _, _, _ := w.S.VerifPeek()
				return cur == net.Listener(st.Ls[r])
			}
			return false
		}
		timeoutOf := func(r int) time.Duration {
			if d.timed(r) {
				return time.Hour
			}
			return 0
		}
		curRound := func() int {
			for r := d.Rounds - 1; r >= 0; r-- {
				if isBound(r) && st.ret[r] == 0 {
					return r
				}
			}
			return -1
		}
		vsched.GoDaemon("M", func() {
			if d.NoListener {
				if err := w.S.DoListen(w.Ctx, 0); err == nil {
					st.preErr = "DoListen without a listener returned nil"
				}
			}
			for r := 0; r < d.Rounds; r++ {
				var err error
				sctx := w.Ctx
				if d.OwnCtx {
					sctx = vnet.NewCtx(fmt.Sprintf("serve%d", r))
				}
				if d.Via == "listen" {
					st.nextBind = r
					err = w.S.Listen(sctx, "unix:@vx", timeoutOf(r))
					if st.bound[r] == 0 && st.hooked[r] {
						st.bound[r] = w.ev("bound %d (seen at return)", r)
					}
				} else {
					w.S.VerifSetListener(st.Ls[r])
					st.bound[r] = w.ev("bound %d", r)
					err = w.S.DoListen(sctx, timeoutOf(r))
				}
				if d.OwnCtx {
					sctx.Cancel() // the caller's deferred cancel(): this run is over, its context is released
				}
				if p := st.pendingTO; p != nil {
					p.nextOp = "return"
					st.pendingTO = nil
				}
				ev := "nil"
				if err != nil {
					ev = err.Error()
					if _, ok := err.(varlink.ServiceTimeoutError); ok {
						ev = "TIMEOUT"
					}
				}
				st.retVal[r] = ev
				st.retPeek[r] = peek(w.S, st.Ls)
				for _, c := range st.Ls[r].Accepted {
					if !c.IsClosed() {
						st.retPeek[r] += " OPENCONN:" + c.Name
					}
				}
				st.ret[r] = w.ev("serve-ret %d %s", r, ev)
				w.ServeRet = append(w.ServeRet, ev)
			}
		})
		for k := 0; k < d.Shutdowns; k++ {
			k := k
			st.shutStart = append(st.shutStart, 0)
			st.shutRet = append(st.shutRet, 0)
			st.shutPark = append(st.shutPark, -1)
			st.shutRound = append(st.shutRound, -1)
			vsched.GoDaemon(fmt.Sprintf("S%d", k), func() {
				if k == 1 && d.Rounds == 2 {
					// the second Shutdown of a two-round scenario is aimed at round 1
					vsched.Yield("wait-round1", "S", func() bool { return isBound(1) })
				}
				if k == 0 {
					// with a client that holds its connection open: the first Shutdown comes once that client has its
					// reply (Shutdown while a connection is open), not at some earlier point that few delays reach
					for i, cs := range d.Conns {
						if strings.HasSuffix(cs, "hold") {
							name := fmt.Sprintf("c%d", i)
							vsched.Yield("wait-held-client-served", "S", func() bool {
								c, ok := w.Clients[name]
								return ok && strings.Contains(string(c.Received()), "\x00")
							})
						}
					}
				}
				stamp()
				r := curRound()
				st.shutRound[k] = r
				if r >= 0 && st.Ls[r].Blocked() {
					st.shutPark[k] = r
				}
				st.shutStart[k] = w.ev("shutdown-start %d round=%d parked=%d", k, r, st.shutPark[k])
				w.S.Shutdown()
				_, _, cnt, _, _ := w.S.VerifPeek()
				if cnt < 0 && cnt != varlink.VerifUnknown {
					st.negCount = true
				}
				st.shutRet[k] = w.ev("shutdown-ret %d", k)
			})
		}
		w.OnQuit = func() {
			// Shutdown from inside a handler: recorded like a Shutdown thread's
			k := len(st.shutStart)
			st.shutStart = append(st.shutStart, 0)
			st.shutRet = append(st.shutRet, 0)
			st.shutPark = append(st.shutPark, -1)
			st.shutRound = append(st.shutRound, -1)
			stamp()
			r := curRound()
			st.shutRound[k] = r
			if r >= 0 && st.Ls[r].Blocked() {
				st.shutPark[k] = r
			}
			st.shutStart[k] = w.ev("shutdown-start %d round=%d parked=%d (from a handler)", k, r, st.shutPark[k])
			w.S.Shutdown()
			st.shutRet[k] = w.ev("shutdown-ret %d", k)
		}
		for i, cs := range d.Conns {
			sc := connScripts[cs]
			name := fmt.Sprintf("c%d", i)
			vsched.GoDaemon(name, func() {
				if d.Via == "listen" {
					// a client cannot reach an address before the service has bound it
					vsched.Yield("wait-bound", name, func() bool { return st.hooked[0] })
				}
				if cs == "latehold" {
					vsched.Yield("wait-earlier-connections-handled", name, func() bool {
						ended := 0
						for _, e := range w.Events {
							if strings.HasPrefix(e, "client-end ") {
								ended++
							}
						}
						return ended >= i && len(st.Ls[0].Accepted) >= i && vsched.AliveNamed("service.go:") == 0 && st.Ls[0].Queued() == 0
					})
				}
				w.rawClientOn(st.Ls[0], name, sc.chunks, sc.end)
			})
		}
		if d.Rounds == 2 {
			vsched.GoDaemon("r1client", func() {
				vsched.Yield("wait-round1", "c", func() bool { return isBound(1) })
				sc := connScripts["callhalf"]
				w.rawClientOn(st.Ls[1], "r1", sc.chunks, sc.end)
			})
		}
		if d.Cancel {
			vsched.GoDaemon("X", func() {
				w.Ctx.Cancel()
				w.ev("cancelled")
			})
		}
		switch d.B {
		case "bind", "listen":
			vsched.GoDaemon("B", func() {
				// issue the second bind only once the service is serving (parked in Accept)
				vsched.Yield("wait-serving", "B", func() bool { r := curRound(); return r >= 0 && st.Ls[r].Waiting > 0 })
				stamp()
				st.bPre = peek(w.S, st.Ls)
				st.bStart = w.ev("b-start %s", d.B)
				var err error
				if d.B == "bind" {
					err = w.S.Bind(w.Ctx, "foo:x")
				} else {
					err = w.S.Listen(w.Ctx, "foo:x", 0)
				}
				st.bErr = "nil"
				if err != nil {
					st.bErr = "error"
				}
				st.bPost = peek(w.S, st.Ls)
				st.bEnd = w.ev("b-end %s", st.bErr)
			})
		}
		if d.Late {
			vsched.GoDaemon("late", func() {
				vsched.Yield("wait-shutdown-ret", "late", func() bool {
					for k := range st.shutRet {
						if st.shutRet[k] != 0 && st.shutRound[k] == 0 {
							return true
						}
					}
					return false
				})
				st.lateDial = w.now()
				c, err := st.Ls[0].Dial("late")
				if err == nil {
					st.lateOK = true
					w.Clients["late"] = c
					w.ev("late-dialed")
					c.Write([]byte("{\"method\":\"t.a.R\"}\x00"))
					c.CloseWrite()
				} else {
					w.ev("late-refused")
				}
			})
		}
		if d.Fires > 0 {
			vsched.GoDaemon("T", func() {
				for i := 0; i < d.Fires; i++ {
					var l *vnet.Listener
					vsched.Yield("timer", "T", func() bool {
						r := curRound()
						if r < 0 {
							return false
						}
						l = st.Ls[r]
						return l.Armed()
					})
					// classify every accepted connection at the instant of expiry
					phases := ""
					for _, c := range l.Accepted {
						vc := c
						switch {
						case !vc.IsClosed():
							phases += "O"
						default:
							phases += "c" // closed by the service; the handler may or may not have finished
						}
					}
					_, _, cnt, _, _ := w.S.VerifPeek()
					st.fireOpen = append(st.fireOpen, fmt.Sprintf("%s/q%d/n%d", phases, l.Queued(), cnt))
					st.fireRound = append(st.fireRound, curRound())
					l.Expire()
					st.fireAt = append(st.fireAt, w.ev("expire %s", phases))
				}
			})
		}
	}
}

func (w *World) rawClientOn(l *vnet.Listener, name string, chunks []string, end string) {
	c, err := l.Dial(name)
	if err != nil {
		w.ev("dial-refused %s", name)
		return
	}
	w.Clients[name] = c
	w.ev("dialed %s", name)
	for _, ch := range chunks {
		if _, err := c.Write([]byte(ch)); err != nil {
			break
		}
	}
	switch end {
	case "close":
		c.Close()
	case "half":
		c.CloseWrite()
	case "abort":
		c.Abort()
	case "hold":
		// the client reads its reply and keeps the connection open until some Shutdown has returned, then closes
		p := &rawPeer{c: c}
		p.readFrame()
		vsched.Yield("hold-until-shutdown-returned", name, func() bool {
			st, ok := w.LC.(*lcState)
			if !ok {
				return true
			}
			for _, t := range st.shutRet {
				if t != 0 {
					return true
				}
			}
			return false
		})
		c.Close()
	}
	w.ev("client-end %s", name)
}

func lcObs(x *vsched.Exec) string {
	w := worldOf(x)
	if w == nil {
		return "noworld panic=" + x.Panic
	}
	st := w.LC.(*lcState)
	var sb strings.Builder
	sb.WriteString(strings.Join(w.Events, ";"))
	fmt.Fprintf(&sb, "|ret=%v|peek=%v|b=%s,%s|", st.retVal, st.retPeek, st.bErr, st.bPost)
	for _, n := range []string{"c0", "c1", "c2", "r1", "late"} {
		if c, ok := w.Clients[n]; ok {
			fmt.Fprintf(&sb, "%s=%q ", n, c.Received())
		}
	}
	for _, p := range st.tos {
		fmt.Fprintf(&sb, "|to{r%d h%d q%d %s %v}", p.round, p.handlers, p.queued, p.nextOp, p.openAtNext)
	}
	fmt.Fprintf(&sb, "|inv=%v|parked=%v|panic=%v", w.Inv, x.Parked, x.Panic != "")
	return sb.String()
}

// lcCheck14 is the C14 oracle, evaluated on the final (quiescent) state of an execution.
func lcCheck14(x *vsched.Exec) (string, string) {
	w := worldOf(x)
	if x.Panic != "" {
		return "panic: " + x.Panic, "panic"
	}
	if x.HitHorizon {
		return "", ""
	}
	st := w.LC.(*lcState)
	d := st.d
	_ = w
	for r := 0; r < d.Rounds; r++ {
		if st.bound[r] == 0 {
			continue
		}
		// (1) termination
		for k := range st.shutStart {
			if st.shutStart[k] > st.bound[r] && (st.ret[r] == 0 || st.shutStart[k] < st.ret[r]) {
				if st.ret[r] == 0 {
					return fmt.Sprintf("Shutdown %d was issued while round %d was bound, all connections have ended, yet the serving call never returns (parked: %v)", k, r, x.Parked),
						fmt.Sprintf("b=%s symptom=serving-call-never-returns", d.B)
				}
			}
		}
		if st.ret[r] == 0 {
			continue
		}
		// (2) return value nil when Shutdown found the service waiting in Accept
		for k := range st.shutStart {
			if st.shutPark[k] == r && !d.Timeout && st.retVal[r] != "nil" {
				return fmt.Sprintf("Shutdown %d found the service waiting in Accept (round %d) but the serving call returned %q", k, r, st.retVal[r]),
					fmt.Sprintf("b=%s symptom=non-nil-return-after-shutdown", d.B)
			}
		}
		// (4)/(5) state when the serving call returned
		want := "running=false listener=nil count=0"
		if !strings.HasPrefix(st.retPeek[r], want) || strings.Contains(st.retPeek[r], "OPENCONN") {
			return fmt.Sprintf("round %d: state when the serving call returned is %q, want %q and no accepted connection still open", r, st.retPeek[r], want),
				fmt.Sprintf("b=%s symptom=unclean-state-at-return", d.B)
		}
	}
	if st.negCount {
		return "active connection count went negative", "symptom=negative-count"
	}
	if st.preErr != "" {
		return st.preErr, "symptom=dolisten-without-listener"
	}
	if d.NoListener && d.Via == "listen" && st.ret[0] != 0 && !st.hooked[0] {
		return fmt.Sprintf("after a DoListen that failed for want of a listener, Listen on the same service returned %q without ever binding its address", st.retVal[0]), "symptom=service-unusable-after-failed-dolisten"
	}
	// a later run on the same object ends only for a reason of its own: some Shutdown was issued after the
	// previous run had returned (what the previous run's caller does with its context is no such reason)
	if d.OwnCtx && d.Rounds == 2 && st.ret[0] != 0 && st.ret[1] != 0 {
		own := false
		for k := range st.shutStart {
			if st.shutStart[k] > st.ret[0] && st.shutStart[k] < st.ret[1] {
				own = true
			}
		}
		if !own {
			return fmt.Sprintf("round 1 returned %q although no Shutdown was issued after round 0 had returned (the only event in between: round 0's context was cancelled by its caller)", st.retVal[1]), "symptom=later-run-ended-by-earlier-context"
		}
	}
	// (3) no late service
	if d.Late && st.lateOK {
		for _, a := range st.Ls[0].Accepted {
			if strings.HasPrefix(a.Name, "late") {
				return "a client connecting after Shutdown had returned was accepted and served", fmt.Sprintf("b=%s symptom=late-client-served", d.B)
			}
		}
	}
	// the endpoint is released: once a Shutdown aimed at a round has returned and that round's serving
	// call has returned, the round's listener must have been closed (otherwise clients keep connecting to
	// a service that is gone and the address cannot be bound again)
	for r := 0; r < d.Rounds; r++ {
		if st.ret[r] == 0 {
			continue
		}
		for k := range st.shutStart {
			if st.shutRound[k] == r && st.shutRet[k] != 0 && !st.Ls[r].IsClosed() {
				return fmt.Sprintf("round %d: Shutdown %d returned and the serving call returned, but the listener was never closed", r, k),
					fmt.Sprintf("b=%s symptom=listener-left-open-after-shutdown", d.B)
			}
		}
	}
	// (5) a second bind / listen while serving is refused and changes nothing
	if d.B != "" && st.bEnd != 0 {
		undisturbed := true
		for k := range st.shutStart {
			if st.shutStart[k] != 0 && st.shutStart[k] < st.bEnd {
				undisturbed = false
			}
		}
		if st.ret[0] != 0 && st.ret[0] < st.bEnd {
			undisturbed = false
		}
		if undisturbed {
			if st.bErr != "error" {
				return fmt.Sprintf("second %s while serving was not refused", d.B), fmt.Sprintf("b=%s symptom=second-bind-not-refused", d.B)
			}
			if st.bPre != st.bPost {
				// the connection count may legitimately change while B runs
				if stripCount(st.bPre) != stripCount(st.bPost) {
					return fmt.Sprintf("refused second %s changed the serving instance: before %q after %q", d.B, st.bPre, st.bPost),
						fmt.Sprintf("b=%s symptom=refused-%s-changes-serving-state", d.B, d.B)
				}
			}
		}
	}
	// round 1 must behave like a first round: its client is answered
	if d.Rounds == 2 && st.bound[1] != 0 {
		if c, ok := w.Clients["r1"]; ok && st.ret[1] != 0 {
			fr, _ := frames(c.Received())
			if len(fr) != 1 {
				// the client may have been refused/reset only if a Shutdown hit before it was accepted
				accepted := false
				for _, a := range st.Ls[1].Accepted {
					if strings.HasPrefix(a.Name, "r1") {
						accepted = true
					}
				}
				if accepted && len(w.Inv["r1"]) > 0 && len(fr) == 0 {
					return "round 1: call was dispatched but no reply reached the client", "symptom=round1-no-reply"
				}
			}
		}
	}
	return "", ""
}

func stripCount(s string) string {
	i := strings.Index(s, " count=")
	j := strings.Index(s, " proto=")
	if i < 0 || j < 0 {
		return s
	}
	return s[:i] + s[j:]
}

func scenariosC14(tier string) []Scen {
	var descs []lcDesc
	kinds := []string{"call", "abortmid", "herr", "idleclose"}
	var connSets [][]string
	connSets = append(connSets, nil)
	// a connection that stays open until a Shutdown has returned, alone and behind one that has already ended
	connSets = append(connSets, []string{"callhold"}, []string{"call", "callhold"}, []string{"idleclose", "callhold"}, []string{"herr", "callhold"}, []string{"call", "latehold"}, []string{"idleclose", "latehold"}, []string{"herr", "latehold"})
	for _, a := range kinds {
		connSets = append(connSets, []string{a})
	}
	for i, a := range kinds {
		for _, b := range kinds[i:] {
			connSets = append(connSets, []string{a, b})
		}
	}
	for _, cs := range connSets {
		for _, sd := range []int{1, 2} {
			for _, b := range []string{"", "bind", "listen"} {
				for _, late := range []bool{false, true} {
					descs = append(descs, lcDesc{Conns: cs, Shutdowns: sd, B: b, Rounds: 1, Late: late})
				}
			}
		}
		// context cancellation ends connections
		descs = append(descs, lcDesc{Conns: append([]string{"block"}, cs...), Shutdowns: 1, Cancel: true, Rounds: 1})
		// reuse: two rounds
		descs = append(descs, lcDesc{Conns: cs, Shutdowns: 2, Rounds: 2})
		if len(cs) >= 1 && len(cs) <= 2 && (len(cs) == 1 || strings.HasSuffix(cs[1], "hold")) {
			// serving with an idle timeout: accept deadlines expire while the connection is open (the loop goes on),
			// then a Shutdown; everything above holds just the same
			for _, fires := range []int{1, 2} {
				descs = append(descs, lcDesc{Conns: cs, Shutdowns: 1, Rounds: 1, Timeout: true, Fires: fires})
			}
		}
		if len(cs) <= 1 {
			// a failed DoListen (no listener installed) first, then an ordinary run
			descs = append(descs, lcDesc{Conns: cs, Shutdowns: 1, Rounds: 1, NoListener: true})
			// reuse with one context per run, each cancelled by its caller once the run is over
			descs = append(descs, lcDesc{Conns: cs, Shutdowns: 2, Rounds: 2, OwnCtx: true})
			descs = append(descs, lcDesc{Conns: cs, Shutdowns: 1, Rounds: 2, OwnCtx: true})
		}
	}
	// Shutdown from inside a handler (a Quit method), alone, next to other connections and next to a Shutdown thread
	for _, cs := range [][]string{{"quit"}, {"quit", "call"}, {"quit", "callhold"}, {"callhalf", "quit"}, {"quit", "quit"}} {
		for _, sd := range []int{0, 1} {
			descs = append(descs, lcDesc{Conns: cs, Shutdowns: sd, Rounds: 1})
		}
	}
	descs = append(descs, lcDesc{Conns: []string{"quit"}, Shutdowns: 1, Rounds: 2}, lcDesc{Conns: []string{"quit"}, Shutdowns: 0, Rounds: 1, Timeout: true, Fires: 1})
	descs = withVia(descs)
	var out []Scen
	for _, d := range descs {
		d := d
		n := len(d.Conns) + d.Shutdowns
		if d.B != "" {
			n++
		}
		if d.Late {
			n++
		}
		bound := 3
		if n > 3 || d.Rounds == 2 || len(d.Conns) > 1 {
			bound = 2
		}
		if tier != "quick" {
			bound++
		}
		out = append(out, Scen{Desc: d, Bound: bound, Body: lcBody(d), Check: lcCheck14, Obs: lcObs})
	}
	return out
}

// lcCheck15 is the C15 oracle.
func lcCheck15(x *vsched.Exec) (string, string) {
	w := worldOf(x)
	if x.Panic != "" {
		return "panic: " + x.Panic, "panic"
	}
	if x.HitHorizon {
		return "", ""
	}
	st := w.LC.(*lcState)
	d := st.d
	for r := 0; r < d.Rounds; r++ {
		l := st.Ls[r]
		if !d.timed(r) {
			if l.Arms > 0 {
				return "serving without a timeout armed an accept deadline", "symptom=deadline-armed-without-timeout"
			}
			if st.ret[r] != 0 && st.retVal[r] == "TIMEOUT" {
				return "serving without a timeout stopped with the timeout error", "symptom=timeout-without-timeout"
			}
			applicable := false
			for k := range st.shutStart {
				if st.shutStart[k] != 0 {
					applicable = true
				}
			}
			if d.Cancel {
				applicable = true
			}
			if l.TempFailed > 0 {
				applicable = true // the environment failed the accept: the serving call reports that error
			}
			if st.bound[r] != 0 && st.ret[r] != 0 && !applicable {
				return fmt.Sprintf("serving without a timeout and without Shutdown stopped by itself (returned %q)", st.retVal[r]), "symptom=stopped-by-itself"
			}
			continue
		}
		if l.Unarmed > 0 {
			return fmt.Sprintf("round %d: %d Accept call(s) were not preceded by a fresh SetDeadline", r, l.Unarmed), "symptom=accept-without-fresh-deadline"
		}
	}
	stoppedByTimeout := map[int]bool{}
	for _, p := range st.tos {
		if p.nextOp == "close" || p.nextOp == "return" {
			stoppedByTimeout[p.round] = true
		}
	}
	for i, p := range st.tos {
		if p.nextOp == "" || p.shutSeen {
			continue // the loop has not acted on this expiry (execution ended first), or a Shutdown intervened
		}
		if len(p.openAtNext) > 0 && p.nextOp != "setdl" {
			return fmt.Sprintf("accept time-out %d (round %d): connection(s) %v were open from before the expiry until the loop acted, yet the loop did not keep serving (next listener op: %s)", i, p.round, p.openAtNext, p.nextOp),
				"symptom=timeout-stopped-a-non-idle-service"
		}
		if p.handlers == 0 && p.queued == 0 && p.nextOp != "close" && p.nextOp != "return" {
			return fmt.Sprintf("accept time-out %d (round %d): no connection was open or pending and every handler had finished, yet the loop kept serving (next listener op: %s)", i, p.round, p.nextOp),
				"symptom=idle-timeout-did-not-stop"
		}
	}
	for r := 0; r < d.Rounds; r++ {
		if st.ret[r] == 0 {
			if stoppedByTimeout[r] {
				return fmt.Sprintf("round %d: the loop stopped on an idle time-out but the serving call never returned (parked: %v)", r, x.Parked), "symptom=timeout-return-hangs"
			}
			continue
		}
		if stoppedByTimeout[r] && d.Shutdowns == 0 {
			if st.retVal[r] != "TIMEOUT" {
				return fmt.Sprintf("round %d ended by idle time-out but returned %q instead of ServiceTimeoutError", r, st.retVal[r]), "symptom=wrong-timeout-error"
			}
		}
		if st.retVal[r] == "TIMEOUT" {
			if !stoppedByTimeout[r] {
				return fmt.Sprintf("round %d returned ServiceTimeoutError although no accept time-out ended it", r), "symptom=spurious-timeout-error"
			}
			if !st.Ls[r].IsClosed() {
				return fmt.Sprintf("round %d ended by idle time-out but the listener was not closed: clients still connect to a service that is gone and the address cannot be served again", r),
					"symptom=listener-not-closed-after-timeout"
			}
			want := "running=false listener=nil count=0"
			if !strings.HasPrefix(st.retPeek[r], want) || strings.Contains(st.retPeek[r], "OPENCONN") {
				return fmt.Sprintf("round %d: state after time-out return is %q, want %q", r, st.retPeek[r], want), "symptom=unclean-state-after-timeout"
			}
		}
	}
	// after a time-out return the same object serves again: round 1's client is answered if it was dispatched
	if d.Rounds == 2 && st.bound[1] != 0 && st.ret[1] != 0 {
		if c, ok := w.Clients["r1"]; ok {
			fr, _ := frames(c.Received())
			if len(w.Inv["r1"]) > 0 && len(fr) == 0 && !strings.Contains(strings.Join(w.Inv["r1"], " "), "R:err") {
				return "round 1 (after a time-out return): call dispatched but no reply reached the client", "symptom=round1-no-reply"
			}
		}
	}
	return "", ""
}

func scenariosC15(tier string) []Scen {
	var descs []lcDesc
	kinds := []string{"callhalf", "call", "idleclose", "abortmid", "herr", "two"}
	var connSets [][]string
	connSets = append(connSets, nil)
	for _, a := range kinds {
		connSets = append(connSets, []string{a})
	}
	for i, a := range kinds {
		for _, b := range kinds[i:] {
			connSets = append(connSets, []string{a, b})
		}
	}
	for _, cs := range connSets {
		for _, fires := range []int{1, 2, 3} {
			descs = append(descs, lcDesc{Conns: cs, Rounds: 1, Timeout: true, Fires: fires})
		}
		descs = append(descs, lcDesc{Conns: cs, Rounds: 2, Timeout: true, Fires: 2})
		descs = append(descs, lcDesc{Conns: cs, Rounds: 1, Timeout: true, Fires: 2, Shutdowns: 1})
		// the same Service object served once with and once without a timeout, in both orders: what one run was
		// given must not govern the next
		// a first run ended by Shutdown (connections possibly still open at that moment), then a second run that
		// must time out when idle like a first one
		descs = append(descs, lcDesc{Conns: cs, Rounds: 2, Timeout: true, Fires: 2, Shutdowns: 1})
		descs = append(descs, lcDesc{Conns: cs, Rounds: 2, Timeout: true, Fires: 3, Plain: 2})
		descs = append(descs, lcDesc{Conns: cs, Rounds: 2, Timeout: true, Fires: 2, Plain: 1, Shutdowns: 1})
		if len(cs) >= 1 && (cs[0] == "call" || cs[0] == "idleclose") {
			// a transient accept failure at the moment a client connects, no accept deadline expiring anywhere: whatever
			// the serving call does about it, it does not report an idle time-out
			for _, tm := range []bool{false, true} {
				descs = append(descs, lcDesc{Conns: cs, Rounds: 1, Timeout: tm, AccFail: true})
			}
		}
		// no timeout: never stops by itself, never arms a deadline
		descs = append(descs, lcDesc{Conns: cs, Rounds: 1, Timeout: false, Fires: 1})
		descs = append(descs, lcDesc{Conns: cs, Rounds: 1, Timeout: false, Fires: 1, Shutdowns: 1})
	}
	descs = withVia(descs)
	var out []Scen
	for _, d := range descs {
		d := d
		n := len(d.Conns) + d.Shutdowns + d.Fires
		bound := 3
		if n > 3 || d.Rounds == 2 || len(d.Conns) > 1 {
			bound = 2
		}
		if tier != "quick" {
			bound++
		}
		out = append(out, Scen{Desc: d, Bound: bound, Body: lcBody(d), Check: lcCheck15, Obs: lcObs})
	}
	return out
}

// withVia runs every scenario through both serving entry points (their accept loops are separate code).
func withVia(in []lcDesc) []lcDesc {
	var out []lcDesc
	for _, d := range in {
		for _, v := range []string{"dolisten", "listen"} {
			d.Via = v
			out = append(out, d)
		}
	}
	return out
}
