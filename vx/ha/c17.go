package main

import (
	"context"
	"errors"
	"fmt"
	"net"
	"strings"

	"github.com/varlink/go/varlink"
	"vx/vnet"
	"vx/vsched"
)

// ---------------------------------------------------------------------------------------------
// C17: context cancellation and deadlines unblock every I/O operation (and the client-side part of
// C16: no helper goroutine outlives its operation, no HB-race on the connection's reader).

type c17Desc struct {
	Ops      []string `json:"ops"`      // W (write 3 bytes) | R (raw read, 4 byte buffer) | B (ReadBytes NUL) | S (Connection.Send) | V (receive) | C (Connection.Call)
	NCancel  int      `json:"ncancel"`  // the first NCancel ops run under the cancellable context, the rest under a live one
	Kind     string   `json:"kind"`     // cancel | deadline
	Chunks   []string `json:"chunks"`   // what the peer writes, one Write per chunk
	GateOp   int      `json:"gate_op"`  // the cancellation becomes possible once op #GateOp has started ...
	GateData int      `json:"gate_chk"` // ... and the peer has written GateData chunks
	Cap      int      `json:"cap"`      // capacity of the pipe towards the peer (0 = unbounded)
	Stall    bool     `json:"stall"`    // the peer never reads: writes beyond the capacity block until cancelled
	Partial  bool     `json:"partial,omitempty"` // writes deliver as many bytes as there is room for and block for the rest (a kernel socket buffer), so a cancelled write may have put part of its bytes on the wire
	Quiet    bool     `json:"quiet,omitempty"` // the peer writes nothing beyond the first GateData chunks until the last operation under the ending context has returned
	ReplyTo  []int    `json:"reply_to,omitempty"` // client scenarios (ops S, V, C): the peer answers the request of these ops (and only these) when it sees it
}

type opRec struct {
	op       string
	ctxLive  bool
	data     string
	err      string
	timeout  bool
	ctxErr   bool
	helpers  int // helper threads alive when the op returned
	written  int // bytes the peer had written when the op returned
	ctxDone  bool
	flags    uint64
	returned bool
}

type c17State struct {
	ops      []*opRec
	stream   string
	peerGot  string
	uDone    bool
	nWritten int
	peer     *vnet.Conn
}

const c17Stream = "ab\x00cde\x00fg\x00hi\x00"

func c17Body(d c17Desc) func() {
	return func() {
		w := newWorld()
		st := &c17State{}
		w.LC = st
		for _, c := range d.Chunks {
			st.stream += c
		}
		peer, mine := vnet.Pipe("u")
		mine.Cap = d.Cap
		mine.Partial = d.Partial
		st.peer = peer
		var c1 *vnet.Ctx
		if d.Kind == "deadline" || d.Kind == "dlcancel" {
			// dlcancel: a context with a (far) deadline that its owner cancels early
			c1 = vnet.NewCtxDeadline("c1")
		} else {
			c1 = vnet.NewCtx("c1")
		}
		live := vnet.NewCtx("live")
		opsStarted := 0
		chunksWritten := 0
		conn := varlink.VerifNewCtxConn(mine)
		vc := varlink.VerifNewConnection(mine)
		_ = vc
		vsched.Go("U", func() {
			var receive func(context.Context, interface{}) (uint64, error)
			for i, op := range d.Ops {
				var ctx context.Context = live
				rec := &opRec{op: op, ctxLive: i >= d.NCancel}
				if i < d.NCancel {
					ctx = c1
				}
				st.ops = append(st.ops, rec)
				opsStarted = i + 1
				var err error
				switch op {
				case "W":
					var n int
					n, err = conn.Write(ctx, []byte(fmt.Sprintf("w%d.", i)))
					rec.data = fmt.Sprint(n)
				case "R":
					buf := make([]byte, 4)
					var n int
					n, err = conn.Read(ctx, buf)
					rec.data = string(buf[:n])
				case "B":
					var b []byte
					b, err = conn.ReadBytes(ctx, 0)
					rec.data = string(b)
				case "S":
					receive, err = vc.Send(ctx, fmt.Sprintf("x.y.M%d", i), nil, 0)
				case "V":
					if receive == nil {
						// receive without a preceding Send: use a Send under the live context first
						receive, _ = vc.Send(live, fmt.Sprintf("x.y.M%d", i), nil, 0)
					}
					var out interface{}
					rec.flags, err = receive(ctx, &out)
					if err == nil {
						rec.data = jstr(out)
					}
				case "C":
					var out interface{}
					err = vc.Call(ctx, fmt.Sprintf("x.y.M%d", i), nil, &out)
					if err == nil {
						rec.data = jstr(out)
					}
				}
				rec.returned = true
				if err != nil {
					rec.err = err.Error()
					var ne net.Error
					if errors.As(err, &ne) && ne.Timeout() {
						rec.timeout = true
					}
					if errors.Is(err, context.Canceled) || errors.Is(err, context.DeadlineExceeded) {
						rec.ctxErr = true
					}
				}
				rec.helpers = vsched.AliveNamed("conn.go:")
				rec.written = st.nWritten
				rec.ctxDone = ctx.Err() != nil
			}
			st.uDone = true
		})
		gate := func() bool { return opsStarted >= d.GateOp && chunksWritten >= d.GateData }
		if d.Kind == "deadline" {
			vsched.GoDaemon("Xctx", func() {
				vsched.Yield("gate", "X", gate)
				c1.Expire()
			})
			vsched.GoDaemon("Xconn", func() {
				vsched.Yield("gate", "X", func() bool { return gate() && mine.Armed() })
				mine.FireDeadline()
			})
		} else {
			vsched.GoDaemon("X", func() {
				vsched.Yield("gate", "X", gate)
				c1.Cancel()
			})
		}
		if d.ReplyTo != nil {
			// a scripted service: reads requests, answers those of the listed operations
			vsched.GoDaemon("PS", func() {
				p := &rawPeer{c: peer}
				for {
					f, ok := p.readFrame()
					if !ok {
						return
					}
					for _, i := range d.ReplyTo {
						if strings.Contains(f, fmt.Sprintf("x.y.M%d\"", i)) {
							peer.Write([]byte(fmt.Sprintf("{\"parameters\":{\"op\":%d}}\x00", i)))
							chunksWritten++
						}
					}
				}
			})
			return
		}
		vsched.GoDaemon("PW", func() {
			for i, c := range d.Chunks {
				if d.Quiet && i == d.GateData {
					vsched.Yield("quiet-peer", "PW", func() bool { return len(st.ops) >= d.NCancel && st.ops[d.NCancel-1].returned })
				}
				peer.Write([]byte(c))
				chunksWritten++
				st.nWritten += len(c)
			}
			peer.CloseWrite()
		})
		vsched.GoDaemon("PR", func() {
			if d.Stall {
				return
			}
			buf := make([]byte, 64)
			for {
				n, err := peer.Read(buf)
				st.peerGot += string(buf[:n])
				if err != nil {
					return
				}
			}
		})
	}
}

func c17Obs(x *vsched.Exec) string {
	w := worldOf(x)
	if w == nil {
		return "noworld"
	}
	st := w.LC.(*c17State)
	var sb strings.Builder
	for _, r := range st.ops {
		fmt.Fprintf(&sb, "%s[%q err=%q h=%d ret=%v]", r.op, r.data, r.err, r.helpers, r.returned)
	}
	fmt.Fprintf(&sb, "|peer=%q done=%v parked=%v panic=%v", st.peerGot, st.uDone, x.Parked, x.Panic != "")
	return sb.String()
}

func c17Check(d c17Desc) func(x *vsched.Exec) (string, string) {
	return func(x *vsched.Exec) (string, string) {
		if x.Panic != "" {
			return "panic: " + x.Panic, "panic"
		}
		if x.HitHorizon {
			return "", ""
		}
		if len(x.Races) > 0 {
			r := x.Races[0]
			return fmt.Sprintf("data race on %s: %s and %s unordered [%s]", r.Field, r.First, r.Second, r.Threads), "race " + r.Key()
		}
		w := worldOf(x)
		st := w.LC.(*c17State)
		if !st.uDone {
			cur := "?"
			if n := len(st.ops); n > 0 {
				cur = fmt.Sprintf("op %d (%s, context live=%v)", n-1, st.ops[n-1].op, st.ops[n-1].ctxLive)
			}
			return fmt.Sprintf("%s never returned although the peer finished and the context was cancelled where applicable (parked %v)", cur, x.Parked), "symptom=operation-never-returns"
		}
		cursor := 0    // next undelivered byte of the peer's stream
		lossLimit := 0 // bytes that had arrived before the latest cancelled operation returned: only they may be lost
		peerWant := "" // what the peer must have received from live writes
		for i, r := range st.ops {
			if r.helpers != 0 {
				return fmt.Sprintf("op %d (%s): %d helper goroutine(s) still alive when the operation returned", i, r.op, r.helpers), "symptom=helper-outlives-operation"
			}
			cancelled := !r.ctxLive && r.ctxDone
			if r.ctxLive || !cancelled {
				// the context was live for the whole operation: it must not fail with a context or timeout error
				if (r.timeout && (r.ctxLive || d.Kind != "deadline")) || r.ctxErr {
					return fmt.Sprintf("op %d (%s) ran under a live context but failed with %q: a deadline was left armed", i, r.op, r.err), "symptom=stale-deadline"
				}
			} else if r.err != "" && !r.timeout && !r.ctxErr && r.err != "EOF" && r.err != "unexpected EOF" {
				return fmt.Sprintf("op %d (%s) under a cancelled context failed with %q, which is neither a context nor a timeout error", i, r.op, r.err), "symptom=wrong-error"
			}
			switch r.op {
			case "C", "V":
				if r.ctxLive {
					want := fmt.Sprintf("{\"op\":%d}", i)
					if r.err != "" || r.data != want {
						return fmt.Sprintf("op %d (%s) under a live context returned %q (err %q); the peer answered this request with %s and nothing else was outstanding", i, r.op, r.data, r.err, want), "symptom=reply-not-delivered-after-cancelled-call"
					}
				}
			case "W":
				if r.err == "" {
					peerWant += fmt.Sprintf("w%d.", i)
				} else if r.ctxLive {
					return fmt.Sprintf("op %d: write under a live context failed: %s", i, r.err), "symptom=live-write-failed"
				}
			case "R", "B":
				if r.err == "" || r.data != "" {
					p := strings.Index(st.stream[cursor:], r.data)
					if r.data == "" {
						p = 0
					}
					if p < 0 {
						return fmt.Sprintf("op %d (%s) returned %q, which is not what the peer sent next (stream %q, cursor %d): duplicated or reordered bytes", i, r.op, r.data, st.stream, cursor), "symptom=stream-corrupted"
					}
					if p > 0 && cursor+p > lossLimit {
						return fmt.Sprintf("op %d (%s) returned %q but bytes %q before it were lost although no cancelled operation was in progress when they arrived", i, r.op, r.data, st.stream[cursor:cursor+p]), "symptom=bytes-lost"
					}
					if r.op == "B" && r.err == "" {
						if !strings.HasSuffix(r.data, "\x00") || strings.Count(r.data, "\x00") != 1 {
							return fmt.Sprintf("op %d ReadBytes returned %q: not exactly one frame", i, r.data), "symptom=bad-frame"
						}
					}
					cursor += p + len(r.data)
				}
				if r.err != "" && r.ctxLive && r.err != "EOF" {
					return fmt.Sprintf("op %d (%s) under a live context failed: %s", i, r.op, r.err), "symptom=live-read-failed"
				}
				if r.err == "EOF" && r.ctxLive && cursor < len(st.stream) && lossLimit < len(st.stream) {
					return fmt.Sprintf("op %d (%s) reported EOF with %q undelivered", i, r.op, st.stream[cursor:]), "symptom=bytes-lost"
				}
			}
			if cancelled {
				if r.written > lossLimit {
					lossLimit = r.written
				}
			}
		}
		if !strings.HasPrefix(st.peerGot, "") || d.ReplyTo != nil {
			return "", ""
		}
		// live writes arrive completely and in order (a cancelled write may or may not have arrived)
		arrived := string(st.peer.Received())
		if d.Partial {
			// every successful write arrives whole and in order; a failed (cancelled) write contributes a prefix of
			// its bytes, possibly empty, once, at its place
			var units []string
			var okW []bool
			for i, r := range st.ops {
				if r.op == "W" {
					units = append(units, fmt.Sprintf("w%d.", i))
					okW = append(okW, r.err == "")
				}
			}
			var match func(k, pos int) bool
			match = func(k, pos int) bool {
				if k == len(units) {
					return pos == len(arrived)
				}
				if okW[k] {
					return strings.HasPrefix(arrived[pos:], units[k]) && match(k+1, pos+len(units[k]))
				}
				for n := 0; n <= len(units[k]); n++ {
					if strings.HasPrefix(arrived[pos:], units[k][:n]) && match(k+1, pos+n) {
						return true
					}
				}
				return false
			}
			if !match(0, 0) {
				return fmt.Sprintf("bytes that reached the peer %q are not the writes %v (successful: %v) in order, each failed one contributing at most a prefix of its bytes once", arrived, units, okW), "symptom=written-bytes-corrupted"
			}
			return "", ""
		}
		if !subsequenceOfWrites(peerWant, arrived) {
			return fmt.Sprintf("bytes that reached the peer %q, successful writes were %q", arrived, peerWant), "symptom=written-bytes-lost"
		}
		return "", ""
	}
}

// subsequenceOfWrites: every "wN." unit of want occurs in got, in order; got consists of whole units.
func subsequenceOfWrites(want, got string) bool {
	if len(got)%3 != 0 {
		return false
	}
	j := 0
	for i := 0; i+3 <= len(got) && j < len(want); i += 3 {
		if got[i:i+3] == want[j:j+3] {
			j += 3
		}
	}
	return j == len(want)
}

func scenariosC17(tier string) []Scen {
	var out []Scen
	add := func(d c17Desc, bound int) {
		out = append(out, Scen{Desc: d, Bound: bound, Body: c17Body(d), Check: c17Check(d), Obs: c17Obs})
	}
	chunkings := [][]string{
		{c17Stream},
		{"ab\x00c", "de\x00fg\x00hi\x00"},
		{"a", "b\x00cde\x00f", "g\x00hi\x00"},
	}
	alphabet := []string{"B", "R", "W"}
	var seqs [][]string
	for _, a := range alphabet {
		seqs = append(seqs, []string{a})
		for _, b := range alphabet {
			seqs = append(seqs, []string{a, b})
			for _, c := range alphabet {
				seqs = append(seqs, []string{a, b, c})
			}
		}
	}
	for _, ops := range seqs {
		for nc := 1; nc <= 2 && nc <= len(ops); nc++ {
			for _, kind := range []string{"cancel", "deadline", "dlcancel"} {
				if kind == "dlcancel" && len(ops) > 2 && tier == "quick" {
					continue
				}
				for _, ch := range chunkings {
					for gop := 0; gop <= nc; gop++ {
						for gd := 0; gd <= len(ch); gd++ {
							capv := 0
							if strings.Contains(strings.Join(ops, ""), "W") {
								capv = 4
							}
							b := 2
							if len(ops) <= 2 {
								b = 3
							}
							if tier != "quick" {
								b++
							}
							add(c17Desc{Ops: ops, NCancel: nc, Kind: kind, Chunks: ch, GateOp: gop, GateData: gd, Cap: capv}, b)
							if kind == "dlcancel" && capv == 0 && nc == 1 && gop == 1 && gd < len(ch) {
								// the peer stays quiet until the abandoned operation has returned: nothing but the cancellation
								// itself can end it
								add(c17Desc{Ops: ops, NCancel: nc, Kind: kind, Chunks: ch, GateOp: gop, GateData: gd, Quiet: true}, b)
							}
						}
					}
				}
			}
		}
	}
	for _, kind := range []string{"cancel", "deadline"} {
		for _, ps := range [][]string{{""}, {"{\"method\":"}, {"", "{\"me"}, {"{\"method\":\"t.a.R\"}\x00", ""}} {
			d := c17Svc{Svc: true, Partial: ps, Kind: kind}
			b := 2
			if tier != "quick" {
				b = 3
			}
			out = append(out, Scen{Desc: d, Bound: b, Body: c17SvcBody(d), Check: c17SvcCheck, Obs: c17SvcObs})
		}
	}
	// client connection: a Call (or a receive) cancelled while it waits for its reply, then the connection is used
	// again; the peer answers only the second request
	for _, ops := range [][]string{{"C", "C"}, {"V", "C"}} {
		for _, kind := range []string{"cancel", "deadline"} {
			for gop := 0; gop <= 1; gop++ {
				b := 3
				if tier != "quick" {
					b = 4
				}
				add(c17Desc{Ops: ops, NCancel: 1, Kind: kind, GateOp: gop, ReplyTo: []int{1}}, b)
			}
		}
	}
	// a peer that never reads: every write is cancellable, the pipe holds 4 bytes, each write is 3 bytes
	for n := 1; n <= 3; n++ {
		ops := []string{"W", "W", "W"}[:n]
		for _, kind := range []string{"cancel", "deadline"} {
			for gop := 0; gop <= n; gop++ {
				b := 3
				if tier != "quick" {
					b = 4
				}
				add(c17Desc{Ops: ops, NCancel: n, Kind: kind, Chunks: []string{"x"}, GateOp: gop, GateData: 0, Cap: 4, Stall: true}, b)
				// the same with partial writes: the second write gets one byte through before it blocks
				if gop > 2 {
					continue // with partial writes the second write already blocks: a third never starts before the cancellation
				}
				add(c17Desc{Ops: ops, NCancel: n, Kind: kind, Chunks: []string{"x"}, GateOp: gop, GateData: 0, Cap: 4, Stall: true, Partial: true}, b)
				if n == 2 {
					// ... and a live write behind the cancelled ones, to a peer that reads again
					add(c17Desc{Ops: []string{"W", "W", "W"}, NCancel: 2, Kind: kind, Chunks: []string{"x"}, GateOp: gop, GateData: 0, Cap: 4, Partial: true}, b)
				}
			}
		}
	}
	db := 3
	if tier != "quick" {
		db = 5
	}
	// full-duplex use under live contexts while the peer resets the connection: both directions fail with a transport
	// error; both must return, and whatever they record about the failure is ordered (judged for races by C16)
	for _, rd := range []string{"R", "B"} {
		d := c17Dup{Dup: "abort", Op: rd, Kind: "none"}
		out = append(out, Scen{Desc: d, Bound: db, Body: c17AbortBody(d), Check: c17AbortCheck, Obs: c17DupObs})
	}
	for _, kind := range []string{"cancel", "deadline"} {
		for _, op := range []string{"W", "R", "B"} {
			for _, dup := range []string{"rd-parked", "closer"} {
				if dup == "rd-parked" && op != "W" {
					dup = "wr-parked"
				}
				d := c17Dup{Dup: dup, Op: op, Kind: kind}
				out = append(out, Scen{Desc: d, Bound: db, Body: c17DupBody(d), Check: c17DupCheck(d), Obs: c17DupObs})
			}
		}
	}
	return out
}

// ---- service side: a handler parked in its per-connection read when the serving context is cancelled

type c17Svc struct {
	Svc     bool     `json:"svc"`
	Partial []string `json:"partial"` // per connection: bytes sent before going idle ("" = nothing)
	Kind    string   `json:"kind"`
}

func c17SvcBody(d c17Svc) func() {
	return func() {
		w := newWorld()
		w.newService("t.a")
		if d.Kind == "deadline" {
			w.Ctx = vnet.NewCtxDeadline("serve")
		} else {
			w.Ctx = vnet.NewCtx("serve")
		}
		l := vnet.NewListener("L0")
		w.L = l
		vsched.GoDaemon("M", func() {
			w.S.VerifSetListener(l)
			w.S.DoListen(w.Ctx, 0)
		})
		dialed := 0
		for i, p := range d.Partial {
			name := fmt.Sprintf("c%d", i)
			p := p
			vsched.GoDaemon(name, func() {
				c, err := l.Dial(name)
				if err != nil {
					return
				}
				w.Clients[name] = c
				if p != "" {
					c.Write([]byte(p))
				}
				dialed++
			})
		}
		vsched.GoDaemon("X", func() {
			vsched.Yield("gate", "X", func() bool { return dialed == len(d.Partial) && len(l.Accepted) == len(d.Partial) })
			if d.Kind == "deadline" {
				w.Ctx.Expire()
			} else {
				w.Ctx.Cancel()
			}
			w.ev("cancelled")
		})
	}
}

func c17SvcObs(x *vsched.Exec) string {
	w := worldOf(x)
	if w == nil {
		return "noworld"
	}
	s := ""
	for _, c := range w.L.Accepted {
		s += fmt.Sprintf("%s closed=%v;", c.Name, c.IsClosed())
	}
	return fmt.Sprintf("%s inv=%v parked=%v", s, w.Inv, x.Parked)
}

func c17SvcCheck(x *vsched.Exec) (string, string) {
	if x.Panic != "" {
		return "panic: " + x.Panic, "panic"
	}
	w := worldOf(x)
	for _, p := range x.Parked {
		if strings.HasPrefix(p, "service.go:") || strings.HasPrefix(p, "conn.go:") {
			return fmt.Sprintf("the serving context was cancelled but a connection handler is still blocked: %v", x.Parked), "symptom=handler-not-unblocked-by-cancel"
		}
	}
	for _, c := range w.L.Accepted {
		if !c.IsClosed() {
			return "handler ended without closing " + c.Name, "symptom=connection-not-closed"
		}
	}
	return "", ""
}

// ---- two operations in opposite directions on one connection, and a Close racing with a cancellation

type c17Dup struct {
	Dup  string `json:"dup"`  // "rd-parked" (a read under a live context is parked, a write under the cancellable one must return) | "wr-parked" (mirror image) | "closer" (the connection is closed by another goroutine around the cancellation)
	Op   string `json:"op"`   // the cancelled operation: W | R | B
	Kind string `json:"kind"` // cancel | deadline
}

type c17DupState struct {
	cRet, lRet bool
	cErr, lErr string
	cCtxErr    bool
	cancelled  bool
}

func c17DupBody(d c17Dup) func() {
	return func() {
		w := newWorld()
		st := &c17DupState{}
		w.LC = st
		peer, mine := vnet.Pipe("u")
		mine.Cap = 2
		mine.Write([]byte("zz")) // the pipe towards the peer is full: a write blocks until the peer reads
		var c1 *vnet.Ctx
		if d.Kind == "deadline" {
			c1 = vnet.NewCtxDeadline("c1")
		} else {
			c1 = vnet.NewCtx("c1")
		}
		live := vnet.NewCtx("live")
		conn := varlink.VerifNewCtxConn(mine)
		run := func(op string, ctx context.Context) error {
			var err error
			switch op {
			case "W":
				_, err = conn.Write(ctx, []byte("wxyz."))
			case "R":
				_, err = conn.Read(ctx, make([]byte, 4))
			case "B":
				_, err = conn.ReadBytes(ctx, 0)
			}
			return err
		}
		started := 0
		other := "B"
		if d.Op != "W" {
			other = "W"
		}
		if d.Dup != "closer" {
			vsched.Go("L", func() {
				started++
				err := run(other, live)
				st.lRet = true
				if err != nil {
					st.lErr = err.Error()
				}
			})
		}
		vsched.Go("U", func() {
			if d.Dup != "closer" {
				// the other direction is under way (its helper is blocked in the transport) before this one starts
				vsched.Yield("wait-other-parked", "U", func() bool { return started == 1 && vsched.AliveNamed("conn.go:") == 1 })
			}
			started++
			err := run(d.Op, c1)
			st.cRet = true
			if err != nil {
				st.cErr = err.Error()
				var ne net.Error
				st.cCtxErr = errors.Is(err, context.Canceled) || errors.Is(err, context.DeadlineExceeded) || (errors.As(err, &ne) && ne.Timeout())
			}
		})
		gate := func() bool { return started == 2 || (d.Dup == "closer" && started == 1) }
		if d.Kind == "deadline" {
			vsched.GoDaemon("Xctx", func() {
				vsched.Yield("gate", "X", gate)
				st.cancelled = true
				c1.Expire()
			})
			vsched.GoDaemon("Xconn", func() {
				vsched.Yield("gate", "X", func() bool { return gate() && mine.Armed() })
				mine.FireDeadline()
			})
		} else {
			vsched.GoDaemon("X", func() {
				vsched.Yield("gate", "X", gate)
				st.cancelled = true
				c1.Cancel()
			})
		}
		if d.Dup == "closer" {
			vsched.GoDaemon("K", func() {
				vsched.Yield("gate", "K", func() bool { return st.cancelled })
				mine.Close()
			})
			return
		}
		// the environment lets the live operation finish once the cancelled one has returned: the peer closes (a parked
		// read sees EOF) or drains what was written (a parked write completes)
		vsched.GoDaemon("E", func() {
			vsched.Yield("wait-cancelled-returned", "E", func() bool { return st.cRet })
			if other == "W" {
				buf := make([]byte, 64)
				for {
					if _, err := peer.Read(buf); err != nil || st.lRet {
						return
					}
				}
			}
			peer.Close()
		})
	}
}

func c17AbortBody(d c17Dup) func() {
	return func() {
		w := newWorld()
		st := &c17DupState{}
		w.LC = st
		peer, mine := vnet.Pipe("u")
		mine.Cap = 2
		mine.Write([]byte("zz")) // the pipe towards the peer is full: a write blocks until the peer reads (or goes away)
		live := vnet.NewCtx("live")
		conn := varlink.VerifNewCtxConn(mine)
		started := 0
		vsched.Go("L", func() {
			started++
			var err error
			if d.Op == "B" {
				_, err = conn.ReadBytes(live, 0)
			} else {
				_, err = conn.Read(live, make([]byte, 4))
			}
			st.lRet = true
			if err != nil {
				st.lErr = err.Error()
			}
		})
		vsched.Go("U", func() {
			vsched.Yield("wait-other-parked", "U", func() bool { return started == 1 && vsched.AliveNamed("conn.go:") == 1 })
			started++
			_, err := conn.Write(live, []byte("wxyz."))
			st.cRet = true
			if err != nil {
				st.cErr = err.Error()
			}
		})
		vsched.GoDaemon("E", func() {
			vsched.Yield("both-started", "E", func() bool { return started == 2 })
			peer.Abort()
		})
	}
}

func c17AbortCheck(x *vsched.Exec) (string, string) {
	if x.Panic != "" {
		return "panic: " + x.Panic, "panic"
	}
	if x.HitHorizon {
		return "", ""
	}
	if len(x.Races) > 0 {
		r := x.Races[0]
		return fmt.Sprintf("data race on %s: %s and %s are not ordered by happens-before", r.Field, r.First, r.Second), "race " + r.Key()
	}
	st := worldOf(x).LC.(*c17DupState)
	if !st.lRet || !st.cRet {
		return fmt.Sprintf("the peer reset the connection while a read and a write were in flight: read returned=%v write returned=%v (parked: %v)", st.lRet, st.cRet, x.Parked), "symptom=operation-never-returns"
	}
	return "", ""
}

func c17DupObs(x *vsched.Exec) string {
	w := worldOf(x)
	if w == nil {
		return "noworld"
	}
	st := w.LC.(*c17DupState)
	return fmt.Sprintf("c=%v/%q l=%v/%q parked=%v", st.cRet, st.cErr, st.lRet, st.lErr, x.Parked)
}

func c17DupCheck(d c17Dup) func(x *vsched.Exec) (string, string) {
	return func(x *vsched.Exec) (string, string) {
		if x.Panic != "" {
			return "panic: " + x.Panic, "panic"
		}
		if x.HitHorizon {
			return "", ""
		}
		w := worldOf(x)
		st := w.LC.(*c17DupState)
		if !st.cRet {
			return fmt.Sprintf("%s under a cancelled context never returned (%s; parked %v)", d.Op, d.Dup, x.Parked), "symptom=operation-never-returns"
		}
		if d.Dup != "closer" {
			if !st.cCtxErr {
				return fmt.Sprintf("%s was blocked when its context was cancelled but returned %q, neither a context nor a timeout error", d.Op, st.cErr), "symptom=wrong-error"
			}
			if !st.lRet {
				return fmt.Sprintf("the operation in the other direction never returned although the peer let it finish (parked %v)", x.Parked), "symptom=operation-never-returns"
			}
			if st.lErr != "" && st.lErr != "EOF" {
				return fmt.Sprintf("the operation in the other direction ran under a live context and failed with %q", st.lErr), "symptom=stale-deadline"
			}
		}
		for _, p := range x.Parked {
			if strings.HasPrefix(p, "conn.go:") {
				return fmt.Sprintf("every operation has returned but a helper goroutine is parked for good: %v", x.Parked), "symptom=helper-left-behind"
			}
		}
		return "", ""
	}
}
