package main

import (
	"github.com/varlink/go/varlink"
	"time"
	"encoding/json"
	"fmt"
	"sort"
	"strings"

	"vx/vnet"
	"vx/vsched"
)

// ---------------------------------------------------------------------------------------------
// C10: the service survives arbitrary and aborted client byte streams.

var c10Frames = map[string]string{
	"call":     `{"method":"t.a.R"}`,
	"more":     `{"method":"t.a.CR","more":true}`,
	"oneway":   `{"method":"t.a.R","oneway":true}`,
	"getinfo":  `{"method":"org.varlink.service.GetInfo"}`,
	"null":     `null`,
	"array":    `[]`,
	"number":   `5`,
	"string":   `"s"`,
	"meth5":    `{"method":5}`,
	"morex":    `{"method":"t.a.R","more":"x"}`,
	"empty":    `{}`,
	"params5":  `{"method":"t.a.R","parameters":5}`,
	"trunc":    `{"method":`,
	"badutf":   "\xff\xfe",
	"zero":     ``,
	"big":      `{"method":"t.a.R","parameters":{"s":"` + strings.Repeat("x", 5000) + `"}}`,
	"herr":     `{"method":"t.a.X"}`,
	"unknown":  `{"method":"u.x.M"}`,
	"nulmeth":  `{"method":null,"more":null}`,
	"trailing": `{"method":"t.a.R"} x`,
	"stream":   `{"method":"t.a.LR","more":true}`,
	"unicase":  `{"method":"ȺȺȺȺ.a"}`, // U+023A: its lower-case form is one byte longer
	// a complete call followed by a stray closing bracket (a duplicated last byte): not a JSON value
	"closebrace":   `{"method":"org.varlink.service.GetInfo"}}`,
	"closebracket": `{"method":"t.a.R"}]`,
}

var c10KindOrder = []string{"call", "more", "oneway", "getinfo", "null", "array", "number", "string", "meth5", "morex", "empty", "params5", "trunc", "badutf", "zero", "big", "herr", "unknown", "nulmeth", "trailing", "stream", "unicase", "closebrace", "closebracket"}

type c10Desc struct {
	Frames []string `json:"frames"`          // frame kinds, each NUL-terminated on the wire
	Tail   string   `json:"tail,omitempty"`  // unterminated trailing bytes
	Cut    int      `json:"cut"`             // the client sends only the first Cut bytes of the stream ...
	End    string   `json:"end"`             // ... and then: half | close | abort
	EPIPE  int      `json:"epipe"`           // the n-th reply write on the victim connection fails (0 = none)
	Probe  bool     `json:"probe"`           // a well-behaved connection runs concurrently
	Stall  int      `json:"stall,omitempty"` // the client never reads: room for Stall bytes of replies (<0: none), it closes only after the probe is done
	Crowd  int      `json:"crowd,omitempty"` // the victim's script is run by this many connections, one after the other (0 = one)
	Timed  bool     `json:"timed,omitempty"` // the service runs with an idle timeout whose accept deadline expires (twice) while the victim is connected
}

// classify restates "a JSON value of the call's shape": null, or an object whose known members,
// where present and not null, have the right JSON type.
func classifyCall(frame string) (callKind, bool) {
	var v interface{}
	if err := json.Unmarshal([]byte(frame), &v); err != nil {
		return callKind{}, false
	}
	if v == nil {
		return callKind{}, true
	}
	o, ok := v.(map[string]interface{})
	if !ok {
		return callKind{}, false
	}
	k := callKind{}
	var fl []string
	for name, val := range o {
		switch strings.ToLower(name) {
		case "method":
			if val == nil {
				continue
			}
			s, ok := val.(string)
			if !ok {
				return callKind{}, false
			}
			k.Method = s
		case "more", "oneway", "upgrade":
			if val == nil {
				continue
			}
			b, ok := val.(bool)
			if !ok {
				return callKind{}, false
			}
			if b {
				fl = append(fl, strings.ToLower(name))
			}
		}
	}
	// canonical flag order as used by callKind
	for _, f := range []string{"more", "oneway", "upgrade"} {
		for _, g := range fl {
			if f == g {
				if k.Flags != "" {
					k.Flags += "+"
				}
				k.Flags += f
			}
		}
	}
	return k, true
}

// okReplies counts the reply attempts of non-oneway calls that the library reported as sent.
func okReplies(log []string) int {
	n, oneway := 0, false
	for _, e := range log {
		if strings.HasPrefix(e, "call ") {
			oneway = strings.Contains(e, "+oneway")
			continue
		}
		if !oneway && strings.HasSuffix(e, ":ok") {
			n++
		}
	}
	return n
}

type c10State struct {
	L         *vnet.Listener
	ret       string
	returned  bool
	probeDone bool
	victDone  bool
	shutdown  bool
	cntAtEnd  int64
}

func (d c10Desc) stream() string {
	s := ""
	for _, f := range d.Frames {
		s += c10Frames[f] + "\x00"
	}
	return s + d.Tail
}

var probeScript = []callKind{{Method: "org.varlink.service.GetInfo"}, {Method: "t.b.R"}, {Method: "org.varlink.service.GetInfo"}}

func c10Body(d c10Desc) func() {
	return func() {
		w := newWorld()
		w.newService("t.a", "t.b")
		w.Ctx = vnet.NewCtx("serve")
		l := vnet.NewListener("L0")
		st := &c10State{L: l}
		w.LC = st
		vsched.GoDaemon("M", func() {
			w.S.VerifSetListener(l)
			var to time.Duration
			if d.Timed {
				to = time.Hour
			}
			err := w.S.DoListen(w.Ctx, to)
			st.ret = fmt.Sprint(err)
			st.returned = true
		})
		if d.Timed {
			vsched.GoDaemon("T", func() {
				for i := 0; i < 2; i++ {
					vsched.Yield("timer", "T", func() bool {
						// only while the victim's connection has been accepted and is still there (an expiry that finds
						// nothing but a queued connection may stop an idle service: not this property's business)
						accepted := false
						for _, a := range l.Accepted {
							if strings.HasPrefix(a.Name, "v") && !a.IsClosed() {
								accepted = true
							}
						}
						return l.Armed() && accepted && !st.victDone && l.Queued() == 0
					})
					l.Expire()
				}
			})
		}
		vsched.GoDaemon("victim", func() {
			for round := 1; round <= max(1, d.Crowd); round++ {
				// a crowd: the same script from many connections in a row (per-service bookkeeping that fills up,
				// such as a bounded queue or table, shows only after enough of them); the last one is judged in detail,
				// the resource checks cover all
				name := "v"
				if round < d.Crowd {
					name = fmt.Sprintf("v%d", round)
				}
				c, err := l.Dial(name)
				if err != nil {
					st.victDone = true
					return
				}
				w.Clients[name] = c
				if d.EPIPE > 0 {
					c.Peer().FailWriteAt = d.EPIPE
				}
				if d.Stall != 0 {
					c.Peer().Cap = d.Stall
				}
				s := d.stream()
				if d.Cut < len(s) {
					s = s[:d.Cut]
				}
				if len(s) > 0 {
					c.Write([]byte(s))
				}
				if d.Stall != 0 {
					// a client that pipelines calls and does not read: it goes away only after the well-behaved
					// connection has been served completely (which must not depend on this one)
					vsched.Yield("stalled-reader", "victim", func() bool {
						pc, ok := w.Clients["p"]
						return ok && strings.Count(string(pc.Received()), "\x00") >= len(probeScript)
					})
				}
				switch d.End {
				case "half":
					c.CloseWrite()
				case "close":
					c.Close()
				case "abort":
					c.Abort()
				case "wait":
					// the client keeps the connection open and waits for the service to end it (the stream holds a
					// frame that is not a call, or a call whose handler fails)
					buf := make([]byte, 4096)
					for {
						if _, err := c.Read(buf); err != nil {
							break
						}
					}
					c.Close()
				}
			}
			st.victDone = true
		})
		if d.Probe {
			vsched.GoDaemon("probe", func() {
				var chunks []string
				for _, k := range probeScript {
					chunks = append(chunks, k.frame())
				}
				w.rawClientOn(l, "p", chunks, "half")
				st.probeDone = true
			})
		} else {
			st.probeDone = true
		}
		vsched.GoDaemon("S", func() {
			// shut down once both clients have finished their scripts and every handler has ended
			vsched.Yield("wait-clients", "S", func() bool {
				return st.victDone && st.probeDone && vsched.AliveNamed("service.go:") == 0 && l.Queued() == 0
			})
			_, _, st.cntAtEnd, _, _ = w.S.VerifPeek()
			if st.cntAtEnd == varlink.VerifUnknown {
				st.cntAtEnd = 0 // the tree keeps no such counter: the other release checks stand
			}
			st.shutdown = true
			w.S.Shutdown()
		})
	}
}

func c10Obs(x *vsched.Exec) string {
	w := worldOf(x)
	if w == nil {
		return "noworld"
	}
	st := w.LC.(*c10State)
	var sb strings.Builder
	for _, n := range []string{"v", "p"} {
		if c, ok := w.Clients[n]; ok {
			r := c.Received()
			if len(r) > 300 {
				r = append(r[:300:300], []byte(fmt.Sprintf("...(%d)", len(r)))...)
			}
			fmt.Fprintf(&sb, "%s=%q inv=%v|", n, r, w.Inv[n])
		}
	}
	fmt.Fprintf(&sb, "ret=%s shutdown=%v parked=%v panic=%v", st.ret, st.shutdown, x.Parked, x.Panic != "")
	return sb.String()
}

func c10Check(d c10Desc) func(x *vsched.Exec) (string, string) {
	// reference: the complete frames inside the delivered prefix, up to the first offending one
	s := d.stream()
	if d.Cut < len(s) {
		s = s[:d.Cut]
	}
	var calls []callKind
	offending := false
	for {
		i := strings.IndexByte(s, 0)
		if i < 0 {
			break // incomplete trailing frame: never dispatched
		}
		k, ok := classifyCall(s[:i])
		s = s[i+1:]
		if !ok {
			offending = true
			break
		}
		calls = append(calls, k)
	}
	_ = offending
	wantFrames, wantLog := refConn(calls)
	pFrames, pLog := refConn(probeScript)
	exact := (d.End == "half" || d.End == "wait") && d.EPIPE == 0 && d.Stall == 0
	return func(x *vsched.Exec) (string, string) {
		if x.Panic != "" {
			return "panic: " + x.Panic, "panic"
		}
		if x.HitHorizon {
			return "", ""
		}
		if len(x.Races) > 0 {
			// unordered conflicting accesses to the service's own state from two connections' goroutines: for a map
			// that is an abort of the whole process ("concurrent map read and map write"), for anything else
			// one connection's traffic reaching into another's
			r := x.Races[0]
			return fmt.Sprintf("client traffic makes two connection goroutines touch %s without ordering (%s / %s)", r.Field, r.First, r.Second), "symptom=connections-share-unsynchronised-state " + r.Key()
		}
		w := worldOf(x)
		st := w.LC.(*c10State)
		// victim connection
		if c, ok := w.Clients["v"]; ok {
			fr, partial := frames(c.Received())
			if partial != "" {
				return fmt.Sprintf("victim: bytes after the last NUL: %q", partial), "symptom=partial-reply-frame"
			}
			var got []interface{}
			for _, f := range fr {
				var v interface{}
				if err := json.Unmarshal([]byte(f), &v); err != nil {
					return fmt.Sprintf("victim: reply frame is not JSON: %q", f), "symptom=bad-reply-frame"
				}
				got = append(got, v)
			}
			log := w.Inv["v"]
			// a reply the handler was told had been sent is on the wire (whatever became of the peer afterwards)
			fromHandler := 0
			for _, g := range got {
				if m, isObj := g.(map[string]interface{}); isObj {
					pm, _ := m["parameters"].(map[string]interface{})
					_, hasR := pm["r"]
					_, hasC := pm["c"]
					if hasR || hasC || m["error"] == "t.a.Err" || (m["error"] == "org.varlink.service.MethodNotFound" && pm["method"] == "m") {
						fromHandler++
					}
				}
			}
			if ok := okReplies(log); ok != fromHandler {
				return fmt.Sprintf("victim: the handler was told %d times that its reply had been sent, %d of its reply frames were written to the connection (log %v)", ok, fromHandler, log), "symptom=reply-success-without-write"
			}
			if exact {
				if !jsonEqual(got, wantFrames) {
					return fmt.Sprintf("victim replies %s, reference %s", short(jstr(got)), short(jstr(wantFrames))), "symptom=wrong-replies"
				}
				if !(len(log) == 0 && len(wantLog) == 0) && strings.Join(log, ",") != strings.Join(wantLog, ",") {
					return fmt.Sprintf("victim handler log %v, reference %v", log, wantLog), "symptom=wrong-dispatch"
				}
			} else {
				// the peer vanished: what was answered/dispatched must be a prefix of the reference
				if len(got) > len(wantFrames) || !jsonEqual(got, wantFrames[:len(got)]) {
					return fmt.Sprintf("victim replies %s are not a prefix of the reference %s", short(jstr(got)), short(jstr(wantFrames))), "symptom=wrong-replies"
				}
				if !logPrefix(log, wantLog) {
					return fmt.Sprintf("victim handler log %v is not a prefix of the reference %v", log, wantLog), "symptom=wrong-dispatch"
				}
			}
		}
		// probe connection: exactly its replies, whatever the victim does
		if d.Probe {
			c, ok := w.Clients["p"]
			if !ok {
				return "probe connection never connected", "symptom=probe-disturbed"
			}
			fr, _ := frames(c.Received())
			var got []interface{}
			for _, f := range fr {
				var v interface{}
				json.Unmarshal([]byte(f), &v)
				got = append(got, v)
			}
			if !jsonEqual(got, pFrames) || strings.Join(w.Inv["p"], ",") != strings.Join(pLog, ",") {
				return fmt.Sprintf("probe connection disturbed: replies %s log %v", short(jstr(got)), w.Inv["p"]), "symptom=probe-disturbed"
			}
		}
		// resources released: handlers gone, count zero, Shutdown ends serving
		if !st.shutdown {
			return fmt.Sprintf("handler threads never ended after the peers were gone (parked %v)", x.Parked), "symptom=handler-stuck"
		}
		if st.cntAtEnd != 0 {
			return fmt.Sprintf("active connection count is %d after every connection has ended", st.cntAtEnd), "symptom=count-leak"
		}
		if !st.returned {
			return fmt.Sprintf("the serving call did not return after Shutdown (parked %v)", x.Parked), "symptom=serve-stuck"
		}
		for _, sc := range st.L.Accepted {
			if !sc.IsClosed() {
				return "service never closed " + sc.Name, "symptom=connection-not-closed"
			}
		}
		return "", ""
	}
}

func short(s string) string {
	if len(s) > 400 {
		return s[:400] + "..."
	}
	return s
}

// logPrefix: got is a prefix of want, except that its last entry may be a reply attempt that failed
// with an I/O error because the peer was gone ("R:ioerr" where the reference says "R:ok").
func logPrefix(got, want []string) bool {
	for i := range got {
		if i >= len(want) {
			return false
		}
		if got[i] == want[i] {
			continue
		}
		if strings.HasSuffix(got[i], ":ioerr") && strings.HasSuffix(want[i], ":ok") && got[i][:1] == want[i][:1] && i == len(got)-1 {
			return true
		}
		return false
	}
	return true
}

func scenariosC10(tier string) []Scen {
	var out []Scen
	add := func(d c10Desc, bound int) {
		out = append(out, Scen{Desc: d, Bound: bound, Body: c10Body(d), Check: c10Check(d), Obs: c10Obs})
	}
	var streams [][]string
	for _, a := range c10KindOrder {
		streams = append(streams, []string{a})
	}
	for _, a := range c10KindOrder {
		for _, b := range c10KindOrder {
			if a == "big" && b == "big" {
				continue
			}
			streams = append(streams, []string{a, b})
		}
	}
	if tier != "quick" {
		sub := []string{"call", "more", "null", "array", "morex", "zero", "herr", "trunc"}
		for _, a := range sub {
			for _, b := range sub {
				for _, c := range sub {
					streams = append(streams, []string{a, b, c})
				}
			}
		}
	}
	for _, fs := range streams {
		for _, tail := range []string{"", `{"method":"t.a.R"`} {
			if tail != "" && len(fs) > 1 {
				continue
			}
			d := c10Desc{Frames: fs, Tail: tail, Probe: true}
			n := len(d.stream())
			// boundary offsets explored with schedule deviations
			bset := map[int]bool{0: true, n: true, n - 1: true}
			off := 0
			for _, f := range fs {
				bset[off+len(c10Frames[f])/2] = true
				off += len(c10Frames[f]) + 1
				bset[off] = true
				bset[off-1] = true
			}
			step := 1
			if n > 400 {
				step = 97
			}
			for cut := 0; cut <= n; cut += step {
				for _, end := range []string{"half", "close", "abort"} {
					b := 0
					if bset[cut] {
						b = 1
						if tier != "quick" {
							b = 2
						}
					}
					dd := d
					dd.Cut, dd.End = cut, end
					add(dd, b)
				}
			}
			var extra []int
			for cut := range bset {
				extra = append(extra, cut)
			}
			sort.Ints(extra)
			for _, cut := range extra {
				if cut%step != 0 && cut >= 0 && cut <= n {
					for _, end := range []string{"half", "close", "abort"} {
						dd := d
						dd.Cut, dd.End = cut, end
						add(dd, 1)
					}
				}
			}
			// clients that do not go away: after a frame that is not a call (or a failing handler) the service ends the
			// connection by itself
			if tail == "" {
				ends := false
				for _, f := range fs {
					if _, ok := classifyCall(c10Frames[f]); !ok || f == "herr" {
						ends = true
					}
				}
				if ends {
					dd := d
					dd.Cut, dd.End = n, "wait"
					add(dd, 1)
				}
			}
			// crowds: 40 connections in a row with the same offending stream (each waits for the service to end it),
			// and 40 that abort after their stream
			if tail == "" && len(fs) == 1 {
				if _, ok := classifyCall(c10Frames[fs[0]]); !ok || fs[0] == "herr" {
					dd := d
					dd.Cut, dd.End, dd.Crowd = n, "wait", 40
					out = append(out, Scen{Desc: dd, Bound: 0, Horizon: 400000, Body: c10Body(dd), Check: c10Check(dd), Obs: c10Obs})
				}
				for _, end := range []string{"abort", "close"} {
					dd := d
					dd.Cut, dd.End, dd.Crowd = n/2, end, 40
					out = append(out, Scen{Desc: dd, Bound: 0, Horizon: 400000, Body: c10Body(dd), Check: c10Check(dd), Obs: c10Obs})
				}
				dd := d
				dd.Cut, dd.End, dd.EPIPE, dd.Crowd = n, "half", 1, 40
				out = append(out, Scen{Desc: dd, Bound: 0, Horizon: 400000, Body: c10Body(dd), Check: c10Check(dd), Obs: c10Obs})
			}
			// stalled readers: the victim's replies cannot be written (at all / after the first byte) until it goes away
			if tail == "" && len(fs) <= 2 {
				pure := true
				for _, f := range fs {
					switch f {
					case "call", "more", "getinfo", "big", "unknown", "herr", "null":
					default:
						pure = false
					}
				}
				if pure {
					for _, stall := range []int{-1, 1} {
						for _, end := range []string{"close", "abort", "close+timed"} {
							dd := d
							if end == "close+timed" {
								if stall != -1 || len(fs) != 1 || fs[0] == "herr" {
									continue // (after a handler error the service ends the connection itself and may then be idle)
								}
								// the same victim on a service with an idle timeout: the accept deadline expires while it is connected
								end, dd.Timed = "close", true
							}
							dd.Cut, dd.End, dd.Stall = n, end, stall
							b := 2
							if tier != "quick" {
								b = 3
							}
							add(dd, b)
						}
					}
				}
			}
			// reply-write failures
			if tail == "" {
				for k := 1; k <= 3; k++ {
					dd := d
					dd.Cut, dd.End, dd.EPIPE = n, "half", k
					add(dd, 1)
				}
			}
		}
	}
	return out
}
