package main

import (
	"context"
	"encoding/json"
	"fmt"
	"io"
	"reflect"
	"strings"

	"github.com/varlink/go/varlink"
	"vx/vnet"
	"vx/vsched"
)

// ---------------------------------------------------------------------------------------------
// C13: introspection reports exactly what was registered.

type c13Desc struct {
	Ident int      `json:"ident"` // which identity strings the service is created with
	Hist  []string `json:"hist"`  // operations, see c13Ops
}

var c13Idents = [][4]string{
	{"vendor", "product", "1.0", "http://example.org"},
	{"", "", "", ""},
	// U+FFFD (what a decoder substitutes for bad bytes, here genuinely encoded), BOM, line separators, a non-character
	{"é<&> \"\x00 \uFFFD", "😀\uFEFF\u2028", "v\n1\u0085", "url with spaces & <tags> \uFFFF\uFFFD"},
}

var c13Descs = map[string]string{
	"d1":  "interface a.b\nmethod F() -> ()\n",
	"d2":  "",
	"d3":  "# é😀<&>\"\\\x00 \uFFFD\u2029\uFEFF\uFFFF \n",
	"d4":  "#",
	"big": strings.Repeat("# 0123456789abcdef\n", 4000),
}

// operations: "reg:<name>:<desc>", "serve", "shutdown", "query" (a fresh client connection while serving),
// "dquery" (in-process HandleMessage, any state), "conn" (open a connection that is kept), "pquery" (query on the
// kept connection, also after Shutdown: it stays served until it is closed)
var c13Ops = []string{"reg:a.b:d1", "reg:a.c:d2", "reg:é.x:d3", "reg:a.b:d4", "reg:org.varlink.service:d1", "reg:org.varlink.resolver:d1", "serve", "servel", "shutdown", "query", "dquery", "conn", "pquery", "other"}

// capture is the ReadWriterContext handed to HandleMessage by an in-process caller.
type capture struct{ out []byte }

func (c *capture) Write(ctx context.Context, b []byte) (int, error) {
	c.out = append(c.out, b...)
	return len(b), nil
}
func (c *capture) Read(ctx context.Context, b []byte) (int, error)          { return 0, io.EOF }
func (c *capture) ReadBytes(ctx context.Context, d byte) ([]byte, error) { return nil, io.EOF }

type c13State struct {
	fail string
	key  string
	log  []string
}

// resolver dispatcher (scripted): answers org.varlink.resolver.GetInfo / Resolve
type resolverDisp struct {
	desc  string
	asked int
}

func (r *resolverDisp) VarlinkGetName() string        { return "org.varlink.resolver" }
func (r *resolverDisp) VarlinkGetDescription() string {
	r.asked++
	if r.asked > 1 {
		return r.desc + "\n# (asked again)"
	}
	return r.desc
}
func (r *resolverDisp) VarlinkDispatch(ctx context.Context, c varlink.Call, method string) error {
	switch method {
	case "GetInfo":
		return c.Reply(ctx, map[string]interface{}{"vendor": "rv", "product": "rp", "version": "r1", "url": "ru", "interfaces": []string{"org.varlink.resolver", "x.y"}})
	case "Resolve":
		var in struct {
			Interface string `json:"interface"`
		}
		if err := c.GetParameters(&in); err != nil {
			return c.ReplyInvalidParameter(ctx, "parameters")
		}
		if in.Interface == "x.y" {
			return c.Reply(ctx, map[string]string{"address": "unix:/run/é x"})
		}
		return c.ReplyError(ctx, "org.varlink.resolver.InterfaceNotFound", map[string]string{"interface": in.Interface})
	}
	return c.ReplyMethodNotFound(ctx, method)
}

func c13Body(d c13Desc) func() {
	return func() {
		w := newWorld()
		st := &c13State{}
		w.LC = st
		id := c13Idents[d.Ident]
		s, err := varlink.NewService(id[0], id[1], id[2], id[3])
		if err != nil {
			st.fail = "NewService: " + err.Error()
			return
		}
		w.S = s
		ctx := vnet.NewCtx("serve")
		live := vnet.NewCtx("client")
		// reference model
		names := []string{"org.varlink.service"}
		descs := map[string]string{}
		mentioned := map[string]bool{"org.varlink.service": true}
		serving := false
		var l *vnet.Listener
		var mret *bool
		fail := func(format string, a ...interface{}) {
			if st.fail == "" {
				st.fail = fmt.Sprintf(format, a...)
				// stable key: the message with step numbers, names and values removed
				k := format
				if i := strings.Index(k, ": "); i >= 0 && strings.HasPrefix(k, "step") {
					k = k[i+2:]
				}
				if i := strings.IndexAny(k, "(=,;"); i > 0 {
					k = k[:i]
				}
				st.key = strings.TrimSpace(strings.ReplaceAll(k, "%s", ""))
			}
		}
		var pconn *varlink.Connection
		var sharedIfaces []string
		var earlier []struct{ got, want []string }
		doQuery := func(step int, conn *varlink.Connection) {
				// out-variables that already hold values: the helper must return the service's values, not keep these
				vendor, product, version, url := "SENTINEL", "SENTINEL", "SENTINEL", "SENTINEL"
				ifaces := []string{"SENTINEL", "SENTINEL", "SENTINEL", "SENTINEL", "SENTINEL", "SENTINEL", "SENTINEL"}
				if err := conn.GetInfo(live, &vendor, &product, &version, &url, &ifaces); err != nil {
					fail("step %d: GetInfo: %v", step, err)
				}
				// the same slice variable is reused by every query of the history: lists returned earlier must stay intact
				if err := conn.GetInfo(live, nil, nil, nil, nil, &sharedIfaces); err != nil {
					fail("step %d: GetInfo: %v", step, err)
				}
				if !reflect.DeepEqual(sharedIfaces, names) {
					fail("step %d: GetInfo interfaces (reused variable) %q, reference %q", step, sharedIfaces, names)
				}
				for _, e := range earlier {
					if !reflect.DeepEqual(e.got, e.want) {
						fail("step %d: an interface list returned by an earlier GetInfo changed afterwards: %q, was %q", step, e.got, e.want)
					}
				}
				earlier = append(earlier, struct{ got, want []string }{sharedIfaces, append([]string(nil), names...)})
				if [4]string{vendor, product, version, url} != id {
					fail("step %d: GetInfo identity %q, created with %q", step, [4]string{vendor, product, version, url}, id)
				}
				if !reflect.DeepEqual(ifaces, names) {
					fail("step %d: GetInfo interfaces %q, reference %q", step, ifaces, names)
				}
				// nil out-pointers are allowed
				if err := conn.GetInfo(live, nil, nil, nil, nil, nil); err != nil {
					fail("step %d: GetInfo(nil...) %v", step, err)
				}
				var probe []string
				for n := range mentioned {
					probe = append(probe, n, n[:len(n)-1], strings.ToUpper(n), n+"x")
				}
				probe = append(probe, "", "org.varlink", "a")
				sortStrings(probe)
				for _, n := range probe {
					got, err := conn.GetInterfaceDescription(live, n)
					want, ok := descs[n]
					if n == "org.varlink.service" {
						ok = true
						want = got // the built-in text is checked separately below
						if !strings.Contains(got, "interface org.varlink.service") {
							fail("step %d: description of org.varlink.service is %q", step, short(got))
						}
					}
					if ok {
						if err != nil || got != want {
							fail("step %d: GetInterfaceDescription(%q) = %q, %v; registered text %q", step, n, short(got), err, short(want))
						}
					} else {
						ip, isIP := err.(*varlink.InvalidParameter)
						if !isIP || ip.Parameter != "interface" || got != "" {
							fail("step %d: GetInterfaceDescription(%q) for a name that is not registered = %q, %#v; want InvalidParameter(interface)", step, n, short(got), err)
						}
					}
				}
				// routing agrees with registration: a call to <name>.R reaches that name's dispatcher iff it is registered
				var rnames []string
				for n := range mentioned {
					rnames = append(rnames, n)
				}
				sortStrings(rnames)
				for _, n := range rnames {
					if n == "org.varlink.service" || n == "org.varlink.resolver" {
						continue
					}
					var out map[string]interface{}
					err := conn.Call(live, n+".R", nil, &out)
					_, registered := descs[n]
					if registered {
						if err != nil || fmt.Sprint(out["r"]) != "1" {
							fail("step %d: call to registered interface %q: reply %v, %v; want its dispatcher's reply", step, n, out, err)
						}
					} else if inf, ok := err.(*varlink.InterfaceNotFound); !ok || inf.Interface != n {
						fail("step %d: call to %q which is not registered: %v, %#v; want InterfaceNotFound", step, n, out, err)
					}
				}
				if _, ok := descs["org.varlink.resolver"]; ok {
					r := varlink.VerifNewResolver(conn, "unix:/resolver")
					var rv, rp, rver, ru string
					var ri []string
					if err := r.GetInfo(live, &rv, &rp, &rver, &ru, &ri); err != nil || rv != "rv" || rp != "rp" || rver != "r1" || ru != "ru" || !reflect.DeepEqual(ri, []string{"org.varlink.resolver", "x.y"}) {
						fail("step %d: Resolver.GetInfo = %q %q %q %q %q, %v", step, rv, rp, rver, ru, ri, err)
					}
					if a, err := r.Resolve(live, "x.y"); err != nil || a != "unix:/run/é x" {
						fail("step %d: Resolve(x.y) = %q, %v", step, a, err)
					}
					if a, err := r.Resolve(live, "org.varlink.resolver"); err != nil || a != "unix:/resolver" {
						fail("step %d: Resolve(org.varlink.resolver) = %q, %v", step, a, err)
					}
					if a, err := r.Resolve(live, "nope"); err == nil || a != "" {
						fail("step %d: Resolve(nope) = %q, %v; want an error", step, a, err)
					}
				}
		}
		_ = doQuery
		var other *varlink.Service
		others := 0
		for step, op := range d.Hist {
			switch {
			case op == "other":
				// another Service value of the same process registers an interface of its own: nothing of this service's
				// introspection data may change (and the other service answers for itself)
				if other == nil {
					o, err := varlink.NewService("ov", "op", "ow", "ou")
					if err != nil {
						fail("step %d: second NewService: %v", step, err)
						break
					}
					other = o
				}
				others++
				if err := other.RegisterInterface(&disp{name: fmt.Sprintf("o.t%d", others), desc: "interface o.t\nmethod R() -> ()\n", w: w}); err != nil {
					fail("step %d: RegisterInterface on a second, idle service of the process returned %v", step, err)
				}
			case strings.HasPrefix(op, "reg:"):
				p := strings.SplitN(op, ":", 3)
				name, desc := p[1], c13Descs[p[2]]
				mentioned[name] = true
				var err error
				if name == "org.varlink.resolver" {
					err = s.RegisterInterface(&resolverDisp{desc: desc})
				} else {
					err = s.RegisterInterface(&disp{name: name, desc: desc, w: w})
				}
				_, dup := descs[name]
				dup = dup || name == "org.varlink.service"
				wantErr := dup || serving
				if (err != nil) != wantErr {
					fail("step %d %s: RegisterInterface returned %v, reference says refused=%v (duplicate=%v serving=%v)", step, op, err, wantErr, dup, serving)
				}
				if !wantErr {
					names = append(names, name)
					descs[name] = desc
				}
			case op == "serve" || op == "servel":
				l = vnet.NewListener(fmt.Sprintf("L%d", step))
				ll := l
				done := false
				mret = &done
				viaListen := op == "servel"
				vsched.GoDaemon("M", func() {
					if viaListen {
						// the one-call API: Bind (through the package's listen function, hooked onto ll) + serve
						vsched.ListenHook = func(network, address string) (interface{}, error) { return ll, nil }
						s.Listen(ctx, "unix:@vx13", 0)
					} else {
						s.VerifSetListener(ll)
						s.DoListen(ctx, 0)
					}
					done = true
				})
				vsched.Yield("wait-serving", "H", func() bool { return ll.Blocked() })
				serving = true
			case op == "bindonly":
				// Bind without a serving call behind it (and possibly a Shutdown): nothing listens for clients, the
				// service is not "listening" in the property's sense - registrations are accepted
				bl := vnet.NewListener(fmt.Sprintf("B%d", step))
				vsched.ListenHook = func(network, address string) (interface{}, error) { return bl, nil }
				if err := s.Bind(ctx, "unix:@vx13b"); err != nil {
					fail("step %d: Bind: %v", step, err)
				}
			case op == "badlisten":
				// serving attempts that fail at once (strings the library refuses): the service stays as it was
				for _, a := range []string{"bogus:x", "nocolon", "unix:"} {
					if err := s.Listen(ctx, a, 0); err == nil {
						fail("step %d: Listen(%q) returned nil", step, a)
					}
				}
			case op == "shutdown":
				s.Shutdown()
				if serving {
					d := mret
					if pconn != nil {
						// the kept connection is still served: the serving call has torn down but waits for it
						vsched.Yield("wait-teardown", "H", func() bool { _, ln, _, _, _ := s.VerifPeek(); return ln == nil || *d })
					} else {
						vsched.Yield("join-M", "H", func() bool { return *d })
					}
					serving = false
				}
			case op == "query":
				c, err := l.Dial(fmt.Sprintf("q%d", step))
				if err != nil {
					fail("step %d: dial failed while serving", step)
					continue
				}
				conn := varlink.VerifNewConnection(c)
				doQuery(step, conn)
				conn.Close()
			case op == "query32":
				// every subset of the five out-pointers, for the connection helper and (when registered) the resolver helper
				c, err := l.Dial(fmt.Sprintf("s%d", step))
				if err != nil {
					fail("step %d: dial failed while serving", step)
					continue
				}
				conn := varlink.VerifNewConnection(c)
				_, haveRes := descs["org.varlink.resolver"]
				for helper := 0; helper < 2; helper++ {
					if helper == 1 && !haveRes {
						break
					}
					wantID := id
					wantNames := names
					if helper == 1 {
						wantID = [4]string{"rv", "rp", "r1", "ru"}
						wantNames = []string{"org.varlink.resolver", "x.y"}
					}
					for mask := 0; mask < 32; mask++ {
						v := [4]string{"SENTINEL", "SENTINEL", "SENTINEL", "SENTINEL"}
						ifs := []string{"SENTINEL"}
						var ptr [4]*string
						for i := 0; i < 4; i++ {
							if mask&(1<<i) != 0 {
								ptr[i] = &v[i]
							}
						}
						var ip *[]string
						if mask&16 != 0 {
							ip = &ifs
						}
						var err error
						if helper == 0 {
							err = conn.GetInfo(live, ptr[0], ptr[1], ptr[2], ptr[3], ip)
						} else {
							err = varlink.VerifNewResolver(conn, "unix:/resolver").GetInfo(live, ptr[0], ptr[1], ptr[2], ptr[3], ip)
						}
						if err != nil {
							fail("step %d: GetInfo with out-pointer subset %05b: %v", step, mask, err)
							break
						}
						for i := 0; i < 4; i++ {
							if ptr[i] != nil && v[i] != wantID[i] {
								fail("step %d: GetInfo with out-pointer subset %05b (helper %d): field %d is %q, the service's value is %q", step, mask, helper, i, v[i], wantID[i])
							}
							if ptr[i] == nil && v[i] != "SENTINEL" {
								fail("step %d: GetInfo wrote through a nil out-pointer", step)
							}
						}
						if ip != nil && !reflect.DeepEqual(ifs, wantNames) {
							fail("step %d: GetInfo with out-pointer subset %05b (helper %d): interfaces %q, want %q", step, mask, helper, ifs, wantNames)
						}
					}
				}
				conn.Close()
			case op == "conn":
				c, err := l.Dial(fmt.Sprintf("p%d", step))
				if err != nil {
					fail("step %d: dial failed while serving", step)
					continue
				}
				if pconn != nil {
					pconn.Close()
				}
				pconn = varlink.VerifNewConnection(c)
				// a round trip makes sure the connection has been accepted (a connection still in the listener's
				// backlog is legitimately reset by Shutdown)
				if err := pconn.GetInfo(live, nil, nil, nil, nil, nil); err != nil {
					fail("step %d: GetInfo on the kept connection: %v", step, err)
				}
			case op == "pquery":
				doQuery(step, pconn)
			case op == "dquery":
				// an in-process caller of HandleMessage (as the repository's own tests do), in any state
				call := func(method string, params interface{}) map[string]json.RawMessage {
					req, _ := json.Marshal(map[string]interface{}{"method": method, "parameters": params})
					var cp capture
					if err := s.HandleMessage(live, &cp, req); err != nil {
						fail("step %d: HandleMessage(%s): %v", step, method, err)
						return nil
					}
					if len(cp.out) == 0 || cp.out[len(cp.out)-1] != 0 {
						fail("step %d: HandleMessage(%s) wrote %q", step, method, short(string(cp.out)))
						return nil
					}
					var rep struct {
						Error      string                     `json:"error"`
						Parameters map[string]json.RawMessage `json:"parameters"`
					}
					if err := json.Unmarshal(cp.out[:len(cp.out)-1], &rep); err != nil {
						fail("step %d: HandleMessage(%s) reply does not decode: %v", step, method, err)
						return nil
					}
					if rep.Parameters == nil {
						rep.Parameters = map[string]json.RawMessage{}
					}
					rep.Parameters["\x00error"], _ = json.Marshal(rep.Error)
					return rep.Parameters
				}
				if rep := call("org.varlink.service.GetInfo", nil); rep != nil {
					var got []string
					json.Unmarshal(rep["interfaces"], &got)
					if !reflect.DeepEqual(got, names) {
						fail("step %d: in-process GetInfo interfaces %q, reference %q", step, got, names)
					}
					var idg [4]string
					for i, k := range []string{"vendor", "product", "version", "url"} {
						json.Unmarshal(rep[k], &idg[i])
					}
					if idg != id {
						fail("step %d: in-process GetInfo identity %q, created with %q", step, idg, id)
					}
				}
				var probe []string
				for n := range mentioned {
					probe = append(probe, n, n+"x")
				}
				sortStrings(probe)
				for _, n := range probe {
					rep := call("org.varlink.service.GetInterfaceDescription", map[string]string{"interface": n})
					if rep == nil {
						continue
					}
					var got, errName string
					json.Unmarshal(rep["description"], &got)
					json.Unmarshal(rep["\x00error"], &errName)
					want, ok := descs[n]
					if n == "org.varlink.service" {
						ok, want = true, got
					}
					if ok && (errName != "" || got != want) {
						fail("step %d: in-process GetInterfaceDescription(%q) = %q error %q; registered text %q", step, n, short(got), errName, short(want))
					}
					if !ok && errName != "org.varlink.service.InvalidParameter" {
						fail("step %d: in-process GetInterfaceDescription(%q) for a name that is not registered = %q error %q", step, n, short(got), errName)
					}
				}
			}
			got := s.VerifNames()
			st.log = append(st.log, fmt.Sprintf("%s names=%v", op, got))
			if !reflect.DeepEqual(got, names) {
				fail("step %d %s: registered names %q, reference %q", step, op, got, names)
			}
		}
		if serving {
			s.Shutdown()
		}
		if pconn != nil {
			pconn.Close()
		}
	}
}

// ---- concurrent registrations: the verdicts of RegisterInterface must be those of some sequential order, and a
// listening service must not change ----

type c13ConcDesc struct {
	Kind  string   `json:"kind"`  // "concurrent"
	Regs  []string `json:"regs"`  // names registered by one thread each (same name twice = competing registrations)
	Serve bool     `json:"serve"` // a serving call is started concurrently and queried twice
	Intro bool     `json:"intro,omitempty"` // an in-process caller introspects (GetInfo, then the description of every listed name) while the registrations run
}

type c13ConcState struct {
	res    map[int]string
	names  []string
	q1, q2 []string
	served bool
	fail   string
	key    string
}

func c13ConcBody(d c13ConcDesc) func() {
	return func() {
		w := newWorld()
		st := &c13ConcState{res: map[int]string{}}
		w.LC = st
		s, _ := varlink.NewService("v", "p", "1", "u")
		w.S = s
		ctx := vnet.NewCtx("serve")
		live := vnet.NewCtx("client")
		l := vnet.NewListener("L0")
		done := 0
		for i, n := range d.Regs {
			i, n := i, n
			vsched.GoDaemon(fmt.Sprintf("R%d", i), func() {
				err := s.RegisterInterface(&disp{name: n, desc: fmt.Sprintf("d%d", i), w: w})
				st.res[i] = errStr(err)
				done++
			})
		}
		if d.Serve {
			vsched.GoDaemon("M", func() {
				s.VerifSetListener(l)
				s.DoListen(ctx, 0)
			})
			vsched.GoDaemon("Q", func() {
				vsched.Yield("wait-serving", "Q", func() bool { return l.Blocked() })
				st.served = true
				q := func() []string {
					c, err := l.Dial("")
					if err != nil {
						return []string{"dial:" + err.Error()}
					}
					conn := varlink.VerifNewConnection(c)
					defer conn.Close()
					var ifaces []string
					if err := conn.GetInfo(live, nil, nil, nil, nil, &ifaces); err != nil {
						return []string{"err:" + err.Error()}
					}
					return ifaces
				}
				st.q1 = q()
				vsched.Yield("wait-regs", "Q", func() bool { return done == len(d.Regs) })
				st.q2 = q()
				s.Shutdown()
			})
		}
		introDone := !d.Intro
		if d.Intro {
			vsched.GoDaemon("I", func() {
				// whatever moment the introspection falls on: every name GetInfo lists has its description
				call := func(method string, params interface{}) (errName string, p map[string]json.RawMessage) {
					req, _ := json.Marshal(map[string]interface{}{"method": method, "parameters": params})
					var cp capture
					if err := s.HandleMessage(live, &cp, req); err != nil || len(cp.out) == 0 {
						return "handle:" + errStr(err), nil
					}
					var rep struct {
						Error      string                     `json:"error"`
						Parameters map[string]json.RawMessage `json:"parameters"`
					}
					json.Unmarshal(cp.out[:len(cp.out)-1], &rep)
					return rep.Error, rep.Parameters
				}
				for round := 0; round < 2 && st.fail == ""; round++ {
					e, p := call("org.varlink.service.GetInfo", nil)
					var listed []string
					json.Unmarshal(p["interfaces"], &listed)
					if e != "" || len(listed) == 0 || listed[0] != "org.varlink.service" {
						st.fail, st.key = fmt.Sprintf("in-process GetInfo during registrations: error %q interfaces %v", e, listed), "introspection-inconsistent"
						break
					}
					for _, n := range listed[1:] {
						e, p := call("org.varlink.service.GetInterfaceDescription", map[string]string{"interface": n})
						var desc string
						json.Unmarshal(p["description"], &desc)
						if e != "" || !strings.HasPrefix(desc, "d") {
							st.fail, st.key = fmt.Sprintf("GetInfo listed %q, but GetInterfaceDescription(%q) right afterwards answered error %q description %q", n, n, e, desc), "introspection-inconsistent"
						}
					}
				}
				introDone = true
			})
		}
		vsched.Yield("wait-regs", "H", func() bool { return done == len(d.Regs) && introDone })
		st.names = s.VerifNames()
	}
}

func c13ConcObs(x *vsched.Exec) string {
	w := worldOf(x)
	if w == nil {
		return "noworld"
	}
	st := w.LC.(*c13ConcState)
	return fmt.Sprintf("res=%v names=%v q1=%v q2=%v parked=%v", st.res, st.names, st.q1, st.q2, x.Parked)
}

func c13ConcCheck(d c13ConcDesc) func(x *vsched.Exec) (string, string) {
	return func(x *vsched.Exec) (string, string) {
		if x.Panic != "" {
			return "panic: " + x.Panic, "panic"
		}
		w := worldOf(x)
		st := w.LC.(*c13ConcState)
		if st.fail != "" {
			return st.fail, "symptom=" + st.key
		}
		if len(st.res) != len(d.Regs) {
			return fmt.Sprintf("registrations did not finish (parked %v)", x.Parked), "symptom=history-stuck"
		}
		// each name is listed exactly as often as a registration of it succeeded, and at most once
		succ := map[string]int{}
		for i, n := range d.Regs {
			if st.res[i] == "ok" {
				succ[n]++
			}
		}
		listed := map[string]int{}
		for _, n := range st.names {
			listed[n]++
		}
		for _, n := range d.Regs {
			if succ[n] > 1 {
				return fmt.Sprintf("%d concurrent registrations of %q were all accepted (verdicts %v)", succ[n], n, st.res), "symptom=duplicate-registration-accepted"
			}
			if listed[n] != succ[n] {
				return fmt.Sprintf("%q is listed %d times after %d successful registrations (names %v, verdicts %v)", n, listed[n], succ[n], st.names, st.res), "symptom=names-inconsistent-with-verdicts"
			}
			if !d.Serve && succ[n] != 1 {
				return fmt.Sprintf("no registration of %q succeeded although the service never listened (verdicts %v)", n, st.res), "symptom=registration-lost"
			}
		}
		if listed["org.varlink.service"] != 1 {
			return fmt.Sprintf("names %v", st.names), "symptom=names-inconsistent-with-verdicts"
		}
		// a listening service does not change: two queries made while it listens agree
		if d.Serve && st.served && st.q2 != nil && !reflect.DeepEqual(st.q1, st.q2) {
			return fmt.Sprintf("GetInfo listed %v and later %v while the service was listening the whole time", st.q1, st.q2), "symptom=changed-while-listening"
		}
		return "", ""
	}
}

func sortStrings(a []string) {
	for i := 1; i < len(a); i++ {
		for j := i; j > 0 && a[j] < a[j-1]; j-- {
			a[j], a[j-1] = a[j-1], a[j]
		}
	}
}

func c13Obs(x *vsched.Exec) string {
	w := worldOf(x)
	if w == nil {
		return "noworld"
	}
	st := w.LC.(*c13State)
	return fmt.Sprintf("%v|fail=%s|parked=%v|panic=%v", st.log, st.fail, x.Parked, x.Panic != "")
}

func c13Check(x *vsched.Exec) (string, string) {
	if x.Panic != "" {
		return "panic: " + x.Panic, "panic"
	}
	w := worldOf(x)
	st := w.LC.(*c13State)
	if st.fail != "" {
		return st.fail, "symptom=" + st.key
	}
	for _, p := range x.Parked {
		if strings.HasPrefix(p, "main:") {
			return fmt.Sprintf("the history did not run to its end (parked %v)", x.Parked), "symptom=history-stuck"
		}
	}
	return "", ""
}

func scenariosC13(tier string) []Scen {
	maxLen := 4
	if tier != "quick" {
		maxLen = 5
	}
	var out []Scen
	var rec func(h []string, serving bool, kept bool)
	base := 0
	rec = func(h []string, serving bool, kept bool) {
		if len(h) > base {
			last := h[len(h)-1]
			// keep histories that end in an observation or a decision (a trailing reg is judged by its error)
			if strings.HasSuffix(last, "query") || strings.HasPrefix(last, "reg:") {
				for id := range c13Idents {
					if id > 0 && (!strings.HasSuffix(last, "query") || len(h) > 3+base) {
						continue
					}
					d := c13Desc{Ident: id, Hist: append([]string(nil), h...)}
					b := 0
					if len(h) <= 3 && base == 0 {
						b = 1
					}
					out = append(out, Scen{Desc: d, Bound: b, Body: c13Body(d), Check: c13Check, Obs: c13Obs})
				}
			}
		}
		if len(h) == maxLen+base {
			return
		}
		for _, op := range c13Ops {
			switch op {
			case "serve", "servel":
				if serving {
					continue
				}
				if op == "servel" && len(h) > 0 && base == 0 && len(h) < 2 {
					// the Listen variant only in histories that already did something (keeps the quick set small)
					continue
				}
				rec(append(h, op), true, kept)
			case "shutdown":
				rec(append(h, op), false, kept)
			case "query", "conn":
				if !serving {
					continue
				}
				rec(append(h, op), serving, kept || op == "conn")
			case "pquery":
				if !kept {
					continue
				}
				rec(append(h, op), serving, kept)
			default:
				rec(append(h, op), serving, kept)
			}
		}
	}
	rec(nil, false, false)
	// deeper family: a connection that survives a Shutdown, then every continuation (register-again histories
	// observed both through the surviving connection and through new ones)
	base = 3
	maxLen--
	rec([]string{"serve", "conn", "shutdown"}, false, true)
	base = 4
	rec([]string{"reg:a.b:d1", "serve", "conn", "shutdown"}, false, true)
	// a service that was bound but never served (then shut down), then every continuation
	base = 1
	rec([]string{"bindonly"}, false, false)
	base = 2
	rec([]string{"bindonly", "shutdown"}, false, false)
	// a service whose first serving attempts failed (refused address), then every continuation
	base = 1
	rec([]string{"badlisten"}, false, false)
	base = 2
	rec([]string{"reg:a.b:d1", "badlisten"}, false, false)
	// a service that has already been through one serving round of either API, then every continuation
	base = 2
	rec([]string{"servel", "shutdown"}, false, false)
	rec([]string{"serve", "shutdown"}, false, false)
	for _, h := range [][]string{{"reg:a.b:d1", "serve", "query32"}, {"reg:org.varlink.resolver:d1", "reg:é.x:d3", "servel", "query32"}} {
		for id := range c13Idents {
			d := c13Desc{Ident: id, Hist: h}
			out = append(out, Scen{Desc: d, Bound: 0, Body: c13Body(d), Check: c13Check, Obs: c13Obs})
		}
	}
	// registered names without an inner dot (registration takes any name; calls to "local.R" route to "local"): listed,
	// described and routed like any other
	for _, h := range [][]string{
		{"reg:local:d2", "dquery"}, {"reg:local:d2", "serve", "query"}, {"reg:.h:d3", "reg:local:d2", "servel", "query", "shutdown", "dquery"},
		{"reg:local:d2", "reg:a.b:d1", "serve", "conn", "shutdown", "pquery"}, {"reg:h.:d1", "reg:local:d4", "reg:local:d2", "dquery"}} {
		d := c13Desc{Ident: 0, Hist: h}
		out = append(out, Scen{Desc: d, Bound: 1, Body: c13Body(d), Check: c13Check, Obs: c13Obs})
	}
	// concurrent registrations (competing for one name, and racing with the start of serving)
	cb := 3
	if tier != "quick" {
		cb = 4
	}
	for _, regs := range [][]string{{"t.x", "t.x"}, {"t.x", "t.y"}, {"t.x", "t.x", "t.y"}, {"t.x"}} {
		for _, serve := range []bool{false, true} {
			if len(regs) == 1 && !serve {
				continue
			}
			d := c13ConcDesc{Kind: "concurrent", Regs: regs, Serve: serve}
			cb := cb
			if serve {
				cb-- // the two GetInfo round trips make these executions long
			}
			out = append(out, Scen{Desc: d, Bound: cb, Body: c13ConcBody(d), Check: c13ConcCheck(d), Obs: c13ConcObs})
		}
	}
	// introspection racing with accepted registrations (in-process, as after a Shutdown with a connection still open)
	for _, regs := range [][]string{{"t.x"}, {"t.x", "t.y"}} {
		d := c13ConcDesc{Kind: "concurrent", Regs: regs, Intro: true}
		out = append(out, Scen{Desc: d, Bound: cb, Body: c13ConcBody(d), Check: c13ConcCheck(d), Obs: c13ConcObs})
	}
	return out
}
