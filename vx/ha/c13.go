package main

import (
	"context"
	"fmt"
	"reflect"
	"strings"

	"github.com/varlink/go/varlink"
	"vx/vnet"
	"vx/vsched"
)

// ---------------------------------------------------------------------------------------------
// C13: introspection reports exactly what was registered.

type c13Desc struct {
	Ident int      `json:"ident"` // which identity strings the service is created with
	Hist  []string `json:"hist"`  // operations, see c13Ops
}

var c13Idents = [][4]string{
	{"vendor", "product", "1.0", "http://example.org"},
	{"", "", "", ""},
	{"é<&> \"\x00 ", "😀", "v\n1", "url with spaces & <tags>"},
}

var c13Descs = map[string]string{
	"d1":  "interface a.b\nmethod F() -> ()\n",
	"d2":  "",
	"d3":  "# é😀<&>\"\\\x00 \n",
	"d4":  "#",
	"big": strings.Repeat("# 0123456789abcdef\n", 4000),
}

// operations: "reg:<name>:<desc>", "serve", "shutdown", "query"
var c13Ops = []string{"reg:a.b:d1", "reg:a.c:d2", "reg:é.x:d3", "reg:a.b:d4", "reg:org.varlink.service:d1", "reg:org.varlink.resolver:d1", "serve", "shutdown", "query"}

type c13State struct {
	fail string
	key  string
	log  []string
}

// resolver dispatcher (scripted): answers org.varlink.resolver.GetInfo / Resolve
type resolverDisp struct{ desc string }

func (r *resolverDisp) VarlinkGetName() string        { return "org.varlink.resolver" }
func (r *resolverDisp) VarlinkGetDescription() string { return r.desc }
func (r *resolverDisp) VarlinkDispatch(ctx context.Context, c varlink.Call, method string) error {
	switch method {
	case "GetInfo":
		return c.Reply(ctx, map[string]interface{}{"vendor": "rv", "product": "rp", "version": "r1", "url": "ru", "interfaces": []string{"org.varlink.resolver", "x.y"}})
	case "Resolve":
		var in struct {
			Interface string `json:"interface"`
		}
		if err := c.GetParameters(&in); err != nil {
			return c.ReplyInvalidParameter(ctx, "parameters")
		}
		if in.Interface == "x.y" {
			return c.Reply(ctx, map[string]string{"address": "unix:/run/é x"})
		}
		return c.ReplyError(ctx, "org.varlink.resolver.InterfaceNotFound", map[string]string{"interface": in.Interface})
	}
	return c.ReplyMethodNotFound(ctx, method)
}

func c13Body(d c13Desc) func() {
	return func() {
		w := newWorld()
		st := &c13State{}
		w.LC = st
		id := c13Idents[d.Ident]
		s, err := varlink.NewService(id[0], id[1], id[2], id[3])
		if err != nil {
			st.fail = "NewService: " + err.Error()
			return
		}
		w.S = s
		ctx := vnet.NewCtx("serve")
		live := vnet.NewCtx("client")
		// reference model
		names := []string{"org.varlink.service"}
		descs := map[string]string{}
		mentioned := map[string]bool{"org.varlink.service": true}
		serving := false
		var l *vnet.Listener
		var mret *bool
		fail := func(format string, a ...interface{}) {
			if st.fail == "" {
				st.fail = fmt.Sprintf(format, a...)
				// stable key: the message with step numbers, names and values removed
				k := format
				if i := strings.Index(k, ": "); i >= 0 && strings.HasPrefix(k, "step") {
					k = k[i+2:]
				}
				if i := strings.IndexAny(k, "(=,;"); i > 0 {
					k = k[:i]
				}
				st.key = strings.TrimSpace(strings.ReplaceAll(k, "%s", ""))
			}
		}
		for step, op := range d.Hist {
			switch {
			case strings.HasPrefix(op, "reg:"):
				p := strings.SplitN(op, ":", 3)
				name, desc := p[1], c13Descs[p[2]]
				mentioned[name] = true
				var err error
				if name == "org.varlink.resolver" {
					err = s.RegisterInterface(&resolverDisp{desc: desc})
				} else {
					err = s.RegisterInterface(&disp{name: name, desc: desc, w: w})
				}
				_, dup := descs[name]
				dup = dup || name == "org.varlink.service"
				wantErr := dup || serving
				if (err != nil) != wantErr {
					fail("step %d %s: RegisterInterface returned %v, reference says refused=%v (duplicate=%v serving=%v)", step, op, err, wantErr, dup, serving)
				}
				if !wantErr {
					names = append(names, name)
					descs[name] = desc
				}
			case op == "serve":
				l = vnet.NewListener(fmt.Sprintf("L%d", step))
				ll := l
				done := false
				mret = &done
				vsched.GoDaemon("M", func() {
					s.VerifSetListener(ll)
					s.DoListen(ctx, 0)
					done = true
				})
				vsched.Yield("wait-serving", "H", func() bool { return ll.Blocked() })
				serving = true
			case op == "shutdown":
				s.Shutdown()
				if serving {
					d := mret
					vsched.Yield("join-M", "H", func() bool { return *d })
					serving = false
				}
			case op == "query":
				c, err := l.Dial(fmt.Sprintf("q%d", step))
				if err != nil {
					fail("step %d: dial failed while serving", step)
					continue
				}
				conn := varlink.VerifNewConnection(c)
				var vendor, product, version, url string
				var ifaces []string
				if err := conn.GetInfo(live, &vendor, &product, &version, &url, &ifaces); err != nil {
					fail("step %d: GetInfo: %v", step, err)
				}
				if [4]string{vendor, product, version, url} != id {
					fail("step %d: GetInfo identity %q, created with %q", step, [4]string{vendor, product, version, url}, id)
				}
				if !reflect.DeepEqual(ifaces, names) {
					fail("step %d: GetInfo interfaces %q, reference %q", step, ifaces, names)
				}
				// nil out-pointers are allowed
				if err := conn.GetInfo(live, nil, nil, nil, nil, nil); err != nil {
					fail("step %d: GetInfo(nil...) %v", step, err)
				}
				var probe []string
				for n := range mentioned {
					probe = append(probe, n, n[:len(n)-1], strings.ToUpper(n), n+"x")
				}
				probe = append(probe, "", "org.varlink", "a")
				sortStrings(probe)
				for _, n := range probe {
					got, err := conn.GetInterfaceDescription(live, n)
					want, ok := descs[n]
					if n == "org.varlink.service" {
						ok = true
						want = got // the built-in text is checked separately below
						if !strings.Contains(got, "interface org.varlink.service") {
							fail("step %d: description of org.varlink.service is %q", step, short(got))
						}
					}
					if ok {
						if err != nil || got != want {
							fail("step %d: GetInterfaceDescription(%q) = %q, %v; registered text %q", step, n, short(got), err, short(want))
						}
					} else {
						ip, isIP := err.(*varlink.InvalidParameter)
						if !isIP || ip.Parameter != "interface" || got != "" {
							fail("step %d: GetInterfaceDescription(%q) for a name that is not registered = %q, %#v; want InvalidParameter(interface)", step, n, short(got), err)
						}
					}
				}
				if _, ok := descs["org.varlink.resolver"]; ok {
					r := varlink.VerifNewResolver(conn, "unix:/resolver")
					var rv, rp, rver, ru string
					var ri []string
					if err := r.GetInfo(live, &rv, &rp, &rver, &ru, &ri); err != nil || rv != "rv" || rp != "rp" || rver != "r1" || ru != "ru" || !reflect.DeepEqual(ri, []string{"org.varlink.resolver", "x.y"}) {
						fail("step %d: Resolver.GetInfo = %q %q %q %q %q, %v", step, rv, rp, rver, ru, ri, err)
					}
					if a, err := r.Resolve(live, "x.y"); err != nil || a != "unix:/run/é x" {
						fail("step %d: Resolve(x.y) = %q, %v", step, a, err)
					}
					if a, err := r.Resolve(live, "org.varlink.resolver"); err != nil || a != "unix:/resolver" {
						fail("step %d: Resolve(org.varlink.resolver) = %q, %v", step, a, err)
					}
					if a, err := r.Resolve(live, "nope"); err == nil || a != "" {
						fail("step %d: Resolve(nope) = %q, %v; want an error", step, a, err)
					}
				}
				conn.Close()
			}
			st.log = append(st.log, fmt.Sprintf("%s names=%v", op, s.VerifNames()))
			if got := s.VerifNames(); !reflect.DeepEqual(got, names) {
				fail("step %d %s: registered names %q, reference %q", step, op, got, names)
			}
		}
		if serving {
			s.Shutdown()
		}
	}
}

func sortStrings(a []string) {
	for i := 1; i < len(a); i++ {
		for j := i; j > 0 && a[j] < a[j-1]; j-- {
			a[j], a[j-1] = a[j-1], a[j]
		}
	}
}

func c13Obs(x *vsched.Exec) string {
	w := worldOf(x)
	if w == nil {
		return "noworld"
	}
	st := w.LC.(*c13State)
	return fmt.Sprintf("%v|fail=%s|parked=%v|panic=%v", st.log, st.fail, x.Parked, x.Panic != "")
}

func c13Check(x *vsched.Exec) (string, string) {
	if x.Panic != "" {
		return "panic: " + x.Panic, "panic"
	}
	w := worldOf(x)
	st := w.LC.(*c13State)
	if st.fail != "" {
		return st.fail, "symptom=" + st.key
	}
	for _, p := range x.Parked {
		if strings.HasPrefix(p, "main:") {
			return fmt.Sprintf("the history did not run to its end (parked %v)", x.Parked), "symptom=history-stuck"
		}
	}
	return "", ""
}

func scenariosC13(tier string) []Scen {
	maxLen := 4
	if tier != "quick" {
		maxLen = 5
	}
	var out []Scen
	var rec func(h []string, serving bool, served bool)
	rec = func(h []string, serving bool, served bool) {
		if len(h) > 0 {
			last := h[len(h)-1]
			// keep histories that end in an observation or a decision (a trailing reg is judged by its error)
			if last == "query" || strings.HasPrefix(last, "reg:") {
				for id := range c13Idents {
					if id > 0 && (last != "query" || len(h) > 3) {
						continue
					}
					d := c13Desc{Ident: id, Hist: append([]string(nil), h...)}
					b := 0
					if len(h) <= 3 {
						b = 1
					}
					out = append(out, Scen{Desc: d, Bound: b, Body: c13Body(d), Check: c13Check, Obs: c13Obs})
				}
			}
		}
		if len(h) == maxLen {
			return
		}
		for _, op := range c13Ops {
			switch op {
			case "serve":
				if serving {
					continue
				}
				rec(append(h, op), true, true)
			case "shutdown":
				rec(append(h, op), false, served)
			case "query":
				if !serving {
					continue
				}
				rec(append(h, op), serving, served)
			default:
				rec(append(h, op), serving, served)
			}
		}
	}
	rec(nil, false, false)
	return out
}
