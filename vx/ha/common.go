package main

import (
	"crypto/sha256"
	"encoding/hex"
	"encoding/json"
	"flag"
	"fmt"
	"os"
	"sort"
	"strconv"
	"strings"
	"syscall"
	"time"

	"vx/vsched"
)

// Scen is one closed system (thread set + scripts) explored exhaustively up to Bound deviations.
type Scen struct {
	Desc  interface{}
	Bound int
	// Preemption selects preemption bounding instead of delay bounding.
	Preemption bool
	// Cases (optional) reports how many input cases one execution judged (batched scenarios)
	Cases func(x *vsched.Exec) int
	// Horizon overrides the default step horizon (batched input scenarios run long)
	Horizon int
	Body    func()
	// Check returns "" or a violation message; Key (optional) is a stable identity of the failing
	// history used to match known findings.
	Check func(x *vsched.Exec) (msg string, key string)
	// Obs is the observation used for the outcome count and the determinism guard.
	Obs func(x *vsched.Exec) string
}

type Violation struct {
	Scenario interface{} `json:"scenario"`
	Choices  []int       `json:"choices"`
	Msg      string      `json:"msg"`
	Key      string      `json:"key"`
	Trace    []string    `json:"trace,omitempty"`
	Replay   string      `json:"replay,omitempty"`
}

type ShardResult struct {
	Property   string            `json:"property"`
	Shard      int               `json:"shard"`
	Scenarios  int               `json:"scenarios"`
	Executions int               `json:"executions"`
	Steps      int               `json:"steps"`
	Nodes      int               `json:"nodes"`
	MaxDepth   int               `json:"max_depth"`
	MaxBound   int               `json:"max_bound"`
	Capped     bool              `json:"capped"`
	Horizon    int               `json:"horizon_hits"`
	Deadlocks  int               `json:"quiescent_with_parked"`
	Accesses   int               `json:"accesses"`
	Outcomes   map[string]int    `json:"outcomes"`
	Violations []Violation       `json:"violations"`
	Samples    []interface{}     `json:"samples"`
	Races      map[string]string `json:"races,omitempty"`
	Extra      map[string]int    `json:"extra,omitempty"`
	Infra      string            `json:"infra,omitempty"`
	Rule       string            `json:"rule,omitempty"`
	Assume     []string          `json:"assumptions,omitempty"`
	WallS      float64           `json:"wall_s"`
}

var (
	flagTier    = flag.String("tier", "quick", "quick|thorough")
	flagShard   = flag.Int("shard", 0, "shard index")
	flagShards  = flag.Int("shards", 1, "number of shards")
	flagOut     = flag.String("out", "", "result file (JSON)")
	flagReplay  = flag.String("replay", "", "replay file")
	flagBudget  = flag.Duration("budget", 0, "wall-clock budget for this shard (0 = none)")
	flagReplays = flag.String("replaydir", "/verif/replays", "where violation replays are written")
	flagTrace   = flag.Bool("trace", false, "print the trace of the default execution of every scenario")
	flagOnly    = flag.Int("only", -1, "run only this scenario index")
	flagQueue   = flag.String("queue", "", "shared counter file: scenarios are claimed dynamically instead of by index modulo shards")
)

func hashStr(s string) string {
	h := sha256.Sum256([]byte(s))
	return hex.EncodeToString(h[:8])
}

func jstr(v interface{}) string {
	b, _ := json.Marshal(v)
	return string(b)
}

// runScens explores the scenarios of this shard.
func runScens(prop string, scens []Scen) *ShardResult {
	t0 := time.Now()
	selfcheckDiffers := ""
	res := &ShardResult{Property: prop, Shard: *flagShard, Outcomes: map[string]int{}, Races: map[string]string{}, Extra: map[string]int{}}
	var deadline time.Time
	if *flagBudget > 0 {
		deadline = t0.Add(*flagBudget)
	}
	seenKeys := map[string]bool{}
	next := -1
	batch := len(scens) / (*flagShards * 24)
	if batch < 1 {
		batch = 1
	}
	if *flagQueue != "" && *flagOnly < 0 {
		next = claim(*flagQueue) * batch
	}
	for i, sc := range scens {
		if *flagOnly >= 0 {
			if i != *flagOnly {
				continue
			}
		} else if *flagQueue != "" {
			if i < next || i >= next+batch {
				continue
			}
		} else if i%*flagShards != *flagShard {
			continue
		}
		lastOfBatch := *flagQueue != "" && *flagOnly < 0 && (i == next+batch-1 || i == len(scens)-1)
		if !deadline.IsZero() && time.Now().After(deadline) {
			res.Capped = true
			break
		}
		res.Scenarios++
		sc := sc
		if *flagTrace {
			x := vsched.Run(nil, vsched.Config{Trace: true}, sc.Body)
			fmt.Printf("--- scenario %d %s\n%s\nobs: %s\nparked: %v\n", i, jstr(sc.Desc), strings.Join(x.Trace, "\n"), sc.Obs(x), x.Parked)
		}
		if len(res.Samples) < 3 {
			res.Samples = append(res.Samples, map[string]interface{}{"scenario": sc.Desc, "bound": sc.Bound})
		}
		if sc.Bound > res.MaxBound {
			res.MaxBound = sc.Bound
		}
		first := true
		type pend struct {
			choices []int
			msg     string
			key     string
		}
		var pending []pend
		ex := &vsched.Explorer{Bound: sc.Bound, Deadline: deadline, Preemption: sc.Preemption, Cfg: vsched.Config{Horizon: sc.Horizon}}
		ex.Check = func(x *vsched.Exec) string {
			if x.Panic != "" && strings.Contains(x.Panic, "INSTRUMENTATION-UNSUPPORTED") {
				res.Infra = x.Panic
				return "infra"
			}
			o := sc.Obs(x)
			res.Outcomes[hashStr(o)]++
			if sc.Cases != nil {
				res.Extra["input_cases_judged"] += sc.Cases(x)
			}
			for _, r := range x.Races {
				if _, ok := res.Races[r.Key()]; !ok {
					res.Races[r.Key()] = r.Threads
				}
			}
			if first && (sc.Bound > 0 || i%16 == 0) {
				first = false
				// determinism self-check: the default execution replayed must give the same observation
				y := vsched.Run(append([]int(nil), x.Choices...), vsched.Config{Horizon: sc.Horizon}, sc.Body)
				if sc.Obs(y) != o {
					// code under test that is itself nondeterministic (e.g. ranges over a map) is judged by the
					// violation path below when a run violates; two differing runs that both satisfy the property
					// mean the harness does not own all choices
					m1, _ := judgeExec(sc, x)
					m2, _ := judgeExec(sc, y)
					if m1 == "" && m2 == "" && selfcheckDiffers == "" {
						// not fatal by itself: when the same run also finds (replay-validated) violations, the code under
						// test is the likely source (it makes choices of its own); the driver turns this into an
						// infrastructure error only when no violation is reported anywhere
						selfcheckDiffers = fmt.Sprintf("NONDETERMINISM-SELFCHECK scenario %d: %q vs %q", i, short(o), short(sc.Obs(y)))
					}
				}
			}
			msg, key := judgeExec(sc, x)
			if msg != "" {
				if key == "" {
					key = msg
				}
				res.Extra["violating_executions"]++
				if !seenKeys[key] {
					// one replay per distinct key; exploration continues so that other keys are still found
					seenKeys[key] = true
					pending = append(pending, pend{append([]int(nil), x.Choices...), msg, key})
				}
			}
			return ""
		}
		ts := time.Now()
		ex.Explore(sc.Body)
		if os.Getenv("VX_PROFILE") != "" {
			fmt.Fprintf(os.Stderr, "PROFILE %d execs=%d wall=%.2f bound=%d %s\n", i, ex.Stats.Executions, time.Since(ts).Seconds(), sc.Bound, jstr(sc.Desc))
		}
		for _, f := range pending {
			if res.Infra != "" {
				break
			}
			v := Violation{Scenario: sc.Desc, Choices: f.choices, Msg: f.msg, Key: f.key}
			// determinism guard: the recorded schedule must fail on every one of five replays (the
			// observation may differ only if the code under test is itself nondeterministic, e.g. ranges
			// over a map - then every replay must still violate the property)
			fails, same := 0, true
			var obs0 string
			for k := 0; k < 5 || (fails == 0 && k < 40); k++ {
				// (up to 40 replays while none has failed: code that makes choices of its own may need a few)
				y := vsched.Run(f.choices, vsched.Config{Trace: k == 0 && sc.Horizon == 0, Horizon: sc.Horizon}, sc.Body)
				m, mk := judgeExec(sc, y)
				o := sc.Obs(y) + "|" + mk
				if m != "" {
					fails++
				}
				if k == 0 {
					obs0 = o
					v.Trace = y.Trace
				} else if o != obs0 {
					same = false
				}
			}
			switch {
			case fails == 0:
				// the execution that violated cannot be reproduced at all under its own schedule: the harness
				// does not own every choice, nothing it reports is believed
				res.Infra = fmt.Sprintf("NONDETERMINISM: violation %q reproduced on 0 of 40 replays (same observation: %v)", f.key, same)
			case fails < 5 || !same:
				// the schedule replays but the outcome varies: the code under test makes choices of its own (ranging
				// over a map, say). The violating execution is an execution of the code all the same.
				v.Msg += fmt.Sprintf(" [reproduced on %d of 5 replays of the recorded schedule: the code under test is not deterministic under a fixed schedule]", fails)
			}
			if res.Infra != "" {
				break
			}
			os.MkdirAll(*flagReplays, 0o755)
			v.Replay = fmt.Sprintf("%s/%s-%s.json", *flagReplays, prop, hashStr(jstr(v.Scenario)+jstr(v.Choices)))
			rb, _ := json.MarshalIndent(map[string]interface{}{"property": prop, "scenario_index": i, "scenario": sc.Desc, "choices": f.choices, "msg": f.msg, "key": f.key, "trace": v.Trace}, "", " ")
			os.WriteFile(v.Replay, rb, 0o644)
			v.Trace = nil
			res.Violations = append(res.Violations, v)
		}
		res.Executions += ex.Stats.Executions
		res.Steps += ex.Stats.Steps
		res.Nodes += ex.Stats.ChoicePts
		res.Accesses += ex.Stats.Accesses
		res.Horizon += ex.Stats.HorizonHits
		res.Deadlocks += ex.Stats.Deadlocks
		if ex.Stats.MaxDepth > res.MaxDepth {
			res.MaxDepth = ex.Stats.MaxDepth
		}
		res.Capped = res.Capped || ex.Stats.Capped
		if res.Infra != "" {
			break
		}
		if lastOfBatch {
			next = claim(*flagQueue) * batch
		}
	}
	if res.Infra == "" && selfcheckDiffers != "" {
		res.Infra = selfcheckDiffers
	}
	res.WallS = time.Since(t0).Seconds()
	return res
}

// claim atomically takes the next scenario index from the shared counter file.
func claim(path string) int {
	f, err := os.OpenFile(path, os.O_RDWR|os.O_CREATE, 0o644)
	if err != nil {
		panic(err)
	}
	defer f.Close()
	if err := syscall.Flock(int(f.Fd()), syscall.LOCK_EX); err != nil {
		panic(err)
	}
	defer syscall.Flock(int(f.Fd()), syscall.LOCK_UN)
	buf := make([]byte, 32)
	n, _ := f.ReadAt(buf, 0)
	v, _ := strconv.Atoi(strings.TrimSpace(string(buf[:n])))
	f.Truncate(0)
	f.WriteAt([]byte(strconv.Itoa(v+1)), 0)
	return v
}

func emit(res *ShardResult) {
	b, _ := json.Marshal(res)
	if *flagOut != "" {
		os.WriteFile(*flagOut, b, 0o644)
	} else {
		// human summary
		keys := []string{}
		for k := range res.Races {
			keys = append(keys, k)
		}
		sort.Strings(keys)
		fmt.Printf("property=%s scenarios=%d executions=%d steps=%d nodes=%d outcomes=%d capped=%v horizon=%d wall=%.1fs infra=%q\n",
			res.Property, res.Scenarios, res.Executions, res.Steps, res.Nodes, len(res.Outcomes), res.Capped, res.Horizon, res.WallS, res.Infra)
		for _, k := range keys {
			fmt.Printf("  race %s [%s]\n", k, res.Races[k])
		}
		for _, v := range res.Violations {
			fmt.Printf("  VIOLATION key=%q msg=%q scenario=%s choices=%v replay=%s\n", v.Key, v.Msg, jstr(v.Scenario), v.Choices, v.Replay)
		}
	}
}


// judgeExec is the scenario's oracle plus the engine-level livelock verdict.
func judgeExec(sc Scen, x *vsched.Exec) (string, string) {
	msg, key := sc.Check(x)
	if x.Livelock && (msg == "" || strings.Contains(key, "stuck")) {
		// a spin: library threads kept running up to the step horizon without any effect on the environment
		return fmt.Sprintf("livelock: %d steps without any byte moved, connection opened or closed, or event delivered; threads: %v", x.Steps, x.Threads()), "symptom=livelock"
	}
	return msg, key
}
