package main

import (
	"fmt"
	"sort"
	"strings"
	"time"

	"vx/vnet"
	"vx/vsched"
)

// raceDesc is one C16 scenario: a serving call, API operations issued from other goroutines while it
// runs, and client connections.
type raceDesc struct {
	Ops   []string `json:"ops"`   // shutdown | getlistener | regnew | regdup
	Conns []string `json:"conns"` // connection scripts
	Via   string   `json:"via"`
	Timer bool     `json:"timer"` // serve with an idle timeout and one expiry
}

type raceState struct {
	ret    string
	opErr  map[string]string
	served int
}

func raceBody(d raceDesc) func() {
	return func() {
		w := newWorld()
		w.newService("t.a")
		w.Ctx = vnet.NewCtx("serve")
		st := &raceState{opErr: map[string]string{}}
		w.LC = st
		l := vnet.NewListener("L0")
		started := false
		vsched.ListenHook = func(network, address string) (interface{}, error) { return l, nil }
		vsched.ActivationHook = nil
		if d.Via == "activated" {
			// a socket-activated start: Listen finds the inherited socket instead of binding the address
			vsched.ActivationHook = func() interface{} { return l }
			vsched.ListenHook = func(network, address string) (interface{}, error) {
				return nil, fmt.Errorf("a socket-activated service bound %s:%s itself", network, address)
			}
		}
		address := "unix:@vx"
		if d.Via == "listenpath" {
			// a unix path address: the library reaches the listener through its concrete type (SetUnlinkOnClose), which
			// the instrumenter routes to the controlled listener; nothing exists at the path
			address = "unix:/vx-no-such-dir/s"
			ul := &vnet.UnixListener{Listener: l}
			vsched.ListenHook = func(network, address string) (interface{}, error) { return ul, nil }
		}
		var timeout time.Duration
		if d.Timer {
			timeout = time.Hour
		}
		vsched.GoDaemon("M", func() {
			var err error
			started = true
			w.ev("serve-start")
			if d.Via == "listen" || d.Via == "activated" || d.Via == "listenpath" {
				err = w.S.Listen(w.Ctx, address, timeout)
			} else {
				w.S.VerifSetListener(l)
				err = w.S.DoListen(w.Ctx, timeout)
			}
			st.ret = fmt.Sprint(err)
			w.ev("serve-ret")
		})
		for i, op := range d.Ops {
			op := op
			name := fmt.Sprintf("%s%d", op, i)
			vsched.GoDaemon(name, func() {
				// the operation is issued while the serving call is running (it has been entered)
				vsched.Yield("wait-serve-start", name, func() bool { return started })
				var err error
				switch op {
				case "shutdown":
					err = w.S.Shutdown()
				case "getlistener":
					_, err = w.S.GetListener()
				case "regnew":
					err = w.S.RegisterInterface(&disp{name: "t.new" + name, desc: "x", w: w})
				case "regdup":
					err = w.S.RegisterInterface(&disp{name: "t.a", desc: "x", w: w})
				}
				st.opErr[name] = errStr(err)
				w.ev("op-done %s", name)
			})
		}
		for i, cs := range d.Conns {
			sc := connScripts[cs]
			name := fmt.Sprintf("c%d", i)
			vsched.GoDaemon(name, func() {
				vsched.Yield("wait-serve-start", name, func() bool { return started })
				w.rawClientOn(l, name, sc.chunks, sc.end)
			})
		}
		if d.Timer {
			vsched.GoDaemon("T", func() {
				vsched.Yield("timer", "T", l.Armed)
				l.Expire()
			})
		}
	}
}

func raceObs(x *vsched.Exec) string {
	w := worldOf(x)
	if w == nil {
		return "noworld"
	}
	st := w.LC.(*raceState)
	var rk []string
	for _, r := range x.Races {
		rk = append(rk, r.Key())
	}
	sort.Strings(rk)
	var sb strings.Builder
	fmt.Fprintf(&sb, "%s|ret=%s|ops=%v|races=%v|", strings.Join(w.Events, ";"), st.ret, st.opErr, rk)
	for _, n := range []string{"c0", "c1"} {
		if c, ok := w.Clients[n]; ok {
			fmt.Fprintf(&sb, "%s=%q ", n, c.Received())
		}
	}
	return sb.String()
}

// raceCheck: the property is violated by any pair of conflicting accesses to the library's own state
// that the happens-before relation of this execution leaves unordered.
func raceCheck(x *vsched.Exec) (string, string) {
	if x.Panic != "" {
		return "panic: " + x.Panic, "panic"
	}
	if len(x.Races) == 0 {
		return "", ""
	}
	r := x.Races[0]
	return fmt.Sprintf("data race on %s: %s (%s) and %s (%s) are not ordered by happens-before [threads %s]", r.Field, r.First, rwWord(r.FirstW), r.Second, rwWord(r.SecondW), r.Threads),
		"race " + r.Key()
}

func rwWord(w bool) string {
	if w {
		return "write"
	}
	return "read"
}

func scenariosC16(tier string) []Scen {
	ops := []string{"shutdown", "getlistener", "regnew", "regdup"}
	var opSets [][]string
	for i, a := range ops {
		opSets = append(opSets, []string{a})
		for j, b := range ops[i:] {
			opSets = append(opSets, []string{a, b})
			for _, c := range ops[i+j:] {
				opSets = append(opSets, []string{a, b, c})
			}
		}
	}
	// short-lived connections (reset, idleclose) let a handler's exit overlap the accept loop's next
	// iteration within a small deviation bound
	connSets := [][]string{nil, {"callhalf"}, {"two"}, {"herr"}, {"two", "callhalf"}, {"reset", "reset"}, {"idleclose", "callhalf"}, {"reset", "idleclose", "reset"}, {"info"}, {"desc"}, {"info", "desc"}, {"desc", "desc"}, {"info", "info"}}
	var out []Scen
	for _, os := range opSets {
		for _, cs := range connSets {
			for _, via := range []string{"dolisten", "listen"} {
				for _, timer := range []bool{false, true} {
					if timer && len(os) > 2 {
						continue
					}
					d := raceDesc{Ops: os, Conns: cs, Via: via, Timer: timer}
					n := len(os) + len(cs)
					bound := 3
					if n > 2 {
						bound = 2
					}
					if tier != "quick" {
						bound++
					}
					out = append(out, Scen{Desc: d, Bound: bound, Body: raceBody(d), Check: raceCheck, Obs: raceObs})
				}
			}
		}
	}
	// a socket-activated start (the listener comes from activationListener(), not from binding the address)
	for _, os := range opSets {
		if len(os) > 2 {
			continue
		}
		for _, cs := range [][]string{nil, {"callhalf"}, {"info"}} {
			d := raceDesc{Ops: os, Conns: cs, Via: "activated"}
			bound := 3
			if len(os)+len(cs) > 2 {
				bound = 2
			}
			if tier != "quick" {
				bound++
			}
			out = append(out, Scen{Desc: d, Bound: bound, Body: raceBody(d), Check: raceCheck, Obs: raceObs})
		}
	}
	// a unix path address: what the library does to the listener through its concrete type (the unlink flag of
	// net.UnixListener, written by SetUnlinkOnClose and read by Close) is ordered with every Close another goroutine
	// can reach through Shutdown or GetListener
	for _, os := range opSets {
		if len(os) > 2 {
			continue
		}
		for _, cs := range [][]string{nil, {"callhalf"}} {
			for _, timer := range []bool{false, true} {
				d := raceDesc{Ops: os, Conns: cs, Via: "listenpath", Timer: timer}
				bound := 3
				if len(os)+len(cs) > 2 {
					bound = 2
				}
				if tier != "quick" {
					bound++
				}
				out = append(out, Scen{Desc: d, Bound: bound, Body: raceBody(d), Check: raceCheck, Obs: raceObs})
			}
		}
	}
	// client side: one goroutine at a time uses the connection; operations are cancelled at every
	// point; the helper goroutines must be joined and ordered with the next operation (C17's scenarios,
	// judged here only for races and for helpers outliving their operation)
	for _, sc := range scenariosC17(tier) {
		if dd, isDup := sc.Desc.(c17Dup); isDup && dd.Dup == "abort" {
			// full-duplex use ended by a connection reset: already judged for races by its own oracle
			out = append(out, sc)
			continue
		}
		d, ok := sc.Desc.(c17Desc)
		if !ok || len(d.Ops) > 2 {
			continue
		}
		inner := sc.Check
		sc.Check = func(x *vsched.Exec) (string, string) {
			msg, key := inner(x)
			if strings.HasPrefix(key, "race ") || key == "symptom=helper-outlives-operation" || key == "panic" {
				return msg, key
			}
			return "", ""
		}
		if tier == "quick" && sc.Bound > 2 {
			sc.Bound = 2
		}
		out = append(out, sc)
	}
	return out
}
