package main

import (
	"context"
	"encoding/json"
	"fmt"
	"math"
	"strings"

	"github.com/varlink/go/varlink"
	"vx/vnet"
	"vx/vsched"
)

// ---------------------------------------------------------------------------------------------
// C02: framing - one JSON object + one NUL, independent of segmentation.

// jsonObjectOK is an independent recogniser of RFC 8259 JSON restricted to "the text is one object"
// (encoding/json is deliberately not used: framing validity is the thing under test).
func jsonObjectOK(s string) bool {
	p := &jrec{s: s}
	p.ws()
	if p.i >= len(s) || s[p.i] != '{' {
		return false
	}
	if !p.value(0) {
		return false
	}
	p.ws()
	return p.i == len(s)
}

type jrec struct {
	s string
	i int
}

func (p *jrec) ws() {
	for p.i < len(p.s) && (p.s[p.i] == ' ' || p.s[p.i] == '\t' || p.s[p.i] == '\n' || p.s[p.i] == '\r') {
		p.i++
	}
}

func (p *jrec) lit(l string) bool {
	if strings.HasPrefix(p.s[p.i:], l) {
		p.i += len(l)
		return true
	}
	return false
}

func (p *jrec) str() bool {
	if p.i >= len(p.s) || p.s[p.i] != '"' {
		return false
	}
	p.i++
	for p.i < len(p.s) {
		c := p.s[p.i]
		switch {
		case c == '"':
			p.i++
			return true
		case c < 0x20:
			return false // raw control characters (incl. NUL) are not allowed inside strings
		case c == '\\':
			p.i++
			if p.i >= len(p.s) {
				return false
			}
			switch p.s[p.i] {
			case '"', '\\', '/', 'b', 'f', 'n', 'r', 't':
				p.i++
			case 'u':
				if p.i+4 >= len(p.s) {
					return false
				}
				for k := 1; k <= 4; k++ {
					h := p.s[p.i+k]
					if !((h >= '0' && h <= '9') || (h >= 'a' && h <= 'f') || (h >= 'A' && h <= 'F')) {
						return false
					}
				}
				p.i += 5
			default:
				return false
			}
		default:
			p.i++
		}
	}
	return false
}

func (p *jrec) num() bool {
	st := p.i
	if p.i < len(p.s) && p.s[p.i] == '-' {
		p.i++
	}
	if p.i >= len(p.s) {
		return false
	}
	if p.s[p.i] == '0' {
		p.i++
	} else if p.s[p.i] >= '1' && p.s[p.i] <= '9' {
		for p.i < len(p.s) && p.s[p.i] >= '0' && p.s[p.i] <= '9' {
			p.i++
		}
	} else {
		return false
	}
	if p.i < len(p.s) && p.s[p.i] == '.' {
		p.i++
		d := p.i
		for p.i < len(p.s) && p.s[p.i] >= '0' && p.s[p.i] <= '9' {
			p.i++
		}
		if p.i == d {
			return false
		}
	}
	if p.i < len(p.s) && (p.s[p.i] == 'e' || p.s[p.i] == 'E') {
		p.i++
		if p.i < len(p.s) && (p.s[p.i] == '+' || p.s[p.i] == '-') {
			p.i++
		}
		d := p.i
		for p.i < len(p.s) && p.s[p.i] >= '0' && p.s[p.i] <= '9' {
			p.i++
		}
		if p.i == d {
			return false
		}
	}
	return p.i > st
}

func (p *jrec) value(depth int) bool {
	if depth > 20000 {
		return false
	}
	p.ws()
	if p.i >= len(p.s) {
		return false
	}
	switch c := p.s[p.i]; {
	case c == '{':
		p.i++
		p.ws()
		if p.i < len(p.s) && p.s[p.i] == '}' {
			p.i++
			return true
		}
		for {
			p.ws()
			if !p.str() {
				return false
			}
			p.ws()
			if p.i >= len(p.s) || p.s[p.i] != ':' {
				return false
			}
			p.i++
			if !p.value(depth + 1) {
				return false
			}
			p.ws()
			if p.i < len(p.s) && p.s[p.i] == ',' {
				p.i++
				continue
			}
			if p.i < len(p.s) && p.s[p.i] == '}' {
				p.i++
				return true
			}
			return false
		}
	case c == '[':
		p.i++
		p.ws()
		if p.i < len(p.s) && p.s[p.i] == ']' {
			p.i++
			return true
		}
		for {
			if !p.value(depth + 1) {
				return false
			}
			p.ws()
			if p.i < len(p.s) && p.s[p.i] == ',' {
				p.i++
				continue
			}
			if p.i < len(p.s) && p.s[p.i] == ']' {
				p.i++
				return true
			}
			return false
		}
	case c == '"':
		return p.str()
	case c == 't':
		return p.lit("true")
	case c == 'f':
		return p.lit("false")
	case c == 'n':
		return p.lit("null")
	default:
		return p.num()
	}
}

// streamOK: the bytes put on the wire in one direction are a sequence of (JSON object, NUL).
func streamOK(b []byte) (frames int, problem string) {
	s := string(b)
	if len(s) == 0 {
		return 0, ""
	}
	if s[len(s)-1] != 0 {
		return 0, fmt.Sprintf("stream does not end in NUL (tail %s)", q([]byte(s[max(0, len(s)-20):])))
	}
	for _, piece := range strings.Split(s[:len(s)-1], "\x00") {
		frames++
		if piece == "" {
			return frames, "empty frame (two NUL bytes in a row)"
		}
		if !jsonObjectOK(piece) {
			return frames, fmt.Sprintf("frame %d is not a syntactically valid JSON object: %s", frames, q([]byte(piece)))
		}
	}
	return frames, ""
}

type c02Desc struct {
	Kind   string   `json:"kind"`             // emit | rxservice | rxclient
	Values []string `json:"values,omitempty"` // emit: value names
	Seq    []string `json:"seq,omitempty"`    // rx: message sizes
	Cuts   []int    `json:"cuts,omitempty"`
}

type c02State struct {
	fail  string
	cases int
	done  bool
	recv  []string
}

func nest(depth int, leaf interface{}) interface{} {
	v := leaf
	for i := 0; i < depth; i++ {
		if i%2 == 0 {
			v = []interface{}{v}
		} else {
			v = map[string]interface{}{"k": v}
		}
	}
	return v
}

func c02Values(tier string) (names []string, vals map[string]interface{}) {
	vals = map[string]interface{}{}
	add := func(n string, v interface{}) {
		names = append(names, n)
		vals[n] = v
	}
	strs := map[string]string{"empty": "", "nul": "\x00", "anulb": "a\x00b", "quote": "\"", "backslash": "\\", "space": " ", "emoji": "😀", "badutf8": "\xff\xfe", "lonesurrogate": "\xed\xa0\x80", "u2028": "  ",
		"html": "</script><&>", "nulnul": "\x00\x00\x00", "del": "\x7f", "mixed": "a\"\\\x00\n\r\t\b\f😀é"}
	order := []string{"empty", "nul", "anulb", "quote", "backslash", "space", "emoji", "badutf8", "lonesurrogate", "u2028", "html", "nulnul", "del", "mixed"}
	for _, n := range order {
		add("s:"+n, strs[n])
		add("k:"+n, map[string]interface{}{strs[n]: 1})
	}
	// texts that look like JSON escapes (a literal backslash followed by what an encoder or a post-processing
	// step might take for an escape sequence), and the characters encoding/json escapes on its own
	for i, t := range []string{`\u003c`, `\u003e`, `\u0026`, `\u0000`, `\u2028`, `\n`, `\"`, `\\`, `\/`, `\x00`, `a\u003cb\u003e`, `<`, `>`, `&`, "\u2029", `%s%d`, `\u00`, `\`+"\x00", `"\u003c"`, `\\u003c`} {
		add(fmt.Sprintf("s:esc%d", i), t)
		add(fmt.Sprintf("k:esc%d", i), map[string]interface{}{t: t})
	}
	for c := 1; c < 0x20; c++ {
		add(fmt.Sprintf("s:c%02x", c), string(rune(c)))
	}
	for _, d := range []int{1, 8, 200, 2000} {
		add(fmt.Sprintf("nest%d", d), nest(d, "\x00"))
	}
	sizes := []int{1, 4095, 4096, 4097, 65535, 65536, 1 << 20}
	if tier != "quick" {
		sizes = append(sizes, 4<<20, 8<<20)
	}
	for _, n := range sizes {
		add(fmt.Sprintf("str%d", n), strings.Repeat("x", n))
		add(fmt.Sprintf("nulstr%d", n), strings.Repeat("\x00", n/6+1))
	}
	for _, n := range []int{0, 1, 4096, 65536} {
		arr := make([]int, n)
		add(fmt.Sprintf("arr%d", n), arr)
	}
	add("raw:bigint", json.RawMessage(`18446744073709551616`))
	add("raw:nested", json.RawMessage(`{"a":[1,{"b":null}],"c":"\u0000"}`))
	// pre-encoded values as a proxy would forward them: whatever their content, what reaches the wire is a valid frame or nothing
	rawNul, rawEmpty := json.RawMessage("{\"a\":\"\x00\"}"), json.RawMessage{}
	add("raw:nil", json.RawMessage(nil))
	add("raw:empty", rawEmpty)
	add("raw:nul", rawNul)
	add("raw:trunc", json.RawMessage(`{"a":`))
	add("raw:two", json.RawMessage(`{} {}`))
	add("raw:ws", json.RawMessage(" {\"a\" : 1 } \n"))
	add("raw:nulbyte", json.RawMessage("{}\x00"))
	add("rawp:empty", &rawEmpty)
	add("rawp:nul", &rawNul)
	add("nan", math.NaN()) // not encodable: nothing may reach the wire
	add("chan", make(chan int))
	add("nil", nil)
	return
}

func c02Body(d c02Desc, tier string) func() {
	return func() {
		w := newWorld()
		st := &c02State{}
		w.LC = st
		fail := func(format string, a ...interface{}) {
			if st.fail == "" {
				st.fail = fmt.Sprintf(format, a...)
			}
		}
		live := vnet.NewCtx("live")
		s, _ := varlink.NewService("v", "p", "1", "u")
		echo := &c02Echo{st: st}
		s.RegisterInterface(echo)
		w.S = s
		w.Ctx = vnet.NewCtx("serve")
		l := vnet.NewListener("L0")
		vsched.GoDaemon("M", func() {
			s.VerifSetListener(l)
			s.DoListen(w.Ctx, 0)
		})
		switch d.Kind {
		case "emit":
			_, vals := c02Values(tier)
			for _, vn := range d.Values {
				v := vals[vn]
				for _, path := range []string{"reply", "error", "method", "more", "top", "topup"} {
					c, _ := l.Dial("")
					conn := varlink.VerifNewConnection(c)
					echo.value, echo.path = v, path
					var out interface{}
					method := "t.f.Echo"
					var params interface{} = map[string]interface{}{"v": v}
					var err error
					switch path {
					case "method":
						// the value travels in the method string and comes back inside a built-in error reply
						sv, ok := v.(string)
						if !ok {
							continue
						}
						method = sv + ".M"
						err = conn.Call(live, method, nil, &out)
					case "top", "topup":
						// the value itself is the parameters argument (Send / Upgrade), and the handler replies it as its
						// whole parameters
						if path == "top" {
							var recv func(context.Context, interface{}) (uint64, error)
							recv, err = conn.Send(live, method, v, 0)
							if err == nil {
								_, err = recv(live, &out)
							}
						} else {
							_, err = conn.Upgrade(live, method, v)
						}
					case "more":
						var recv func(context.Context, interface{}) (uint64, error)
						recv, err = conn.Send(live, method, params, varlink.More)
						if err == nil {
							for {
								fl, rerr := recv(live, &out)
								if rerr != nil || fl&varlink.Continues == 0 {
									break
								}
							}
						}
					default:
						err = conn.Call(live, method, params, &out)
					}
					_ = err
					st.cases++
					sent := c.Peer().Received() // client -> service
					got := c.Received()         // service -> client
					if _, p := streamOK(sent); p != "" {
						fail("value %s (%s): client -> service: %s", vn, path, p)
					}
					if _, p := streamOK(got); p != "" {
						fail("value %s (%s): service -> client: %s", vn, path, p)
					}
					for _, seg := range append(append([][]byte(nil), c.Log...), c.Peer().Log...) {
						if n := strings.Count(string(seg), "\x00"); n != 1 || seg[len(seg)-1] != 0 {
							fail("value %s (%s): a message was not written as one frame with one trailing NUL (%d NUL bytes in a write of %d bytes)", vn, path, n, len(seg))
						}
					}
					conn.Close()
				}
			}
		case "emitfail":
			// a Send that fails (context already ended; write stalled so that no byte can leave, or free to go)
			// followed by a Send that succeeds: the failed call contributes at most one frame - its own - and the
			// second exactly one
			peer, mine := vnet.Pipe("uf")
			if d.Seq[0] == "stalled" {
				mine.Cap = -1
			}
			conn := varlink.VerifNewConnection(mine)
			dead := vnet.NewCtx("dead")
			if d.Seq[1] == "deadline" {
				dead = vnet.NewCtxDeadline("dead")
				dead.Expire()
			} else {
				dead.Cancel()
			}
			_, errA := conn.Send(dead, "t.f.A", map[string]string{"a": strings.Repeat("A", 40)}, varlink.Oneway)
			mine.Cap = 0
			_, errB := conn.Send(live, "t.f.B", map[string]string{"b": "B"}, varlink.Oneway)
			st.cases++
			if errB != nil {
				fail("Send under a live context after a failed Send: %v", errB)
			}
			wire := peer.Received()
			if _, p := streamOK(wire); p != "" {
				fail("after a failed Send (%v) and a successful one the wire holds %q: %s", errA, short(string(wire)), p)
			}
			fr, _ := frames(wire)
			nA, nB := 0, 0
			for _, f := range fr {
				switch {
				case strings.Contains(f, `"t.f.A"`):
					nA++
				case strings.Contains(f, `"t.f.B"`):
					nB++
				}
			}
			if nB != 1 || nA > 1 || nA+nB != len(fr) || (d.Seq[0] == "stalled" && nA != 0) || (errA == nil && nA != 1) {
				fail("after Send A (result %v, write %s) and Send B the wire holds %d x A and %d x B in %d frames: %q", errA, d.Seq[0], nA, nB, len(fr), short(string(wire)))
			}
			for _, seg := range peer.Log {
				if n := strings.Count(string(seg), "\x00"); n != 1 {
					fail("one write carried %d frames: %q", n, short(string(seg)))
				}
			}
		case "duplex":
			// full-duplex use of one client connection (ctxio: Write is "not safe for concurrent use with itself", Read
			// likewise - one writer and one reader at a time are): a goroutine sends while another receives, and the
			// operation of ONE direction is cancelled while the other direction is in the middle of a frame. Seq[0]:
			// "wv" the cancelled receive must not cut the frame being sent; "rv" the cancelled Send must not cut the
			// reply being received. Seq[1]: bytes of the victim frame that are through when the cancellation lands.
			var k int
			fmt.Sscanf(d.Seq[1], "%d", &k)
			peer, mine := vnet.Pipe("ud")
			conn := varlink.VerifNewConnection(mine)
			recv, err := conn.Send(live, "t.f.Q", nil, 0)
			if err != nil {
				fail("Send Q: %v", err)
				break
			}
			pp := &rawPeer{c: peer}
			pp.readFrame()
			qLen := len(peer.Received())
			if d.Seq[0] == "wv" {
				mine.Partial, mine.Cap = true, k
				ctxR := vnet.NewCtx("rx")
				doneR, doneA := false, false
				var errA error
				vsched.GoDaemon("R", func() {
					var out json.RawMessage
					recv(ctxR, &out)
					doneR = true
				})
				vsched.GoDaemon("W", func() {
					_, errA = conn.Send(live, "t.f.A", map[string]string{"a": strings.Repeat("A", 40)}, varlink.Oneway)
					doneA = true
				})
				vsched.Yield("wait-A-midframe", "H", func() bool { return doneA || (peer.Pending() == k && mine.ReadCalls >= 1) })
				ctxR.Cancel()
				vsched.Yield("wait-R", "H", func() bool { return doneR })
				mine.Cap = 0
				vsched.Yield("wait-A", "H", func() bool { return doneA })
				_, errB := conn.Send(live, "t.f.B", map[string]string{"b": "B"}, varlink.Oneway)
				st.cases++
				wire := peer.Received()[qLen:]
				if errA != nil {
					fail("a Send under a live context failed (%v) because a receive on the same connection was cancelled; wire after it: %q", errA, short(string(wire)))
				}
				if errB != nil {
					fail("Send B: %v", errB)
				}
				if n, p := streamOK(wire); p != "" || n != 2 {
					fail("client -> service after a cancelled receive during a Send: %d frames, %s: %q", n, p, short(string(wire)))
				}
			} else {
				reply := `{"parameters":{"id":"r","p":"` + strings.Repeat("p", 30) + `"}}` + "\x00"
				peer.Write([]byte(reply[:k]))
				doneR, doneW := false, false
				var errR error
				var out struct {
					ID string `json:"id"`
					P  string `json:"p"`
				}
				vsched.GoDaemon("R", func() {
					_, errR = recv(live, &out)
					doneR = true
				})
				vsched.Yield("wait-R-midframe", "H", func() bool { return doneR || (mine.Pending() == 0 && mine.ReadCalls >= 2) })
				mine.Cap = -1
				ctxW := vnet.NewCtx("tx")
				vsched.GoDaemon("W", func() {
					conn.Send(ctxW, "t.f.A", map[string]string{"a": "A"}, varlink.Oneway)
					doneW = true
				})
				vsched.Yield("wait-W-stuck", "H", func() bool { return doneW || mine.WriteCalls >= 2 })
				ctxW.Cancel()
				vsched.Yield("wait-W", "H", func() bool { return doneW })
				peer.Write([]byte(reply[k:]))
				vsched.Yield("wait-R", "H", func() bool { return doneR })
				st.cases++
				if errR != nil || out.ID != "r" || len(out.P) != 30 {
					fail("service -> client: a reply that arrived in two segments (%d + %d bytes) was received as id=%q p=%d bytes err=%v because a Send on the same connection was cancelled between the segments", k, len(reply)-k, out.ID, len(out.P), errR)
				}
			}
		case "emit2s", "emit2c":
			// two connections of one process emit at the same time: the first message is stuck in a blocked
			// write (the peer does not read) while the second one is encoded and sent; then the first drains
			var na, nb int
			fmt.Sscanf(d.Seq[0], "%d", &na)
			fmt.Sscanf(d.Seq[1], "%d", &nb)
			fillFrame := func(b []byte) (string, string) {
				if len(b) == 0 {
					return "", "no message arrived (the message that was stuck in a blocked write never reached the peer whole)"
				}
				if _, p := streamOK(b); p != "" {
					return "", p
				}
				var m struct {
					Parameters struct {
						P  string `json:"p"`
						Ch string `json:"ch"`
						N  int    `json:"n"`
					} `json:"parameters"`
				}
				if err := json.Unmarshal(b[:len(b)-1], &m); err != nil {
					return "", err.Error()
				}
				if m.Parameters.P == "" && m.Parameters.N > 0 {
					return strings.Repeat(m.Parameters.Ch, m.Parameters.N), ""
				}
				return m.Parameters.P, ""
			}
			if d.Kind == "emit2s" {
				ca, _ := l.Dial("a")
				ca.Peer().Cap = -1 // the service's writes to A block
				ca.Write([]byte(fmt.Sprintf(`{"method":"t.f.Fill","parameters":{"n":%d,"ch":"a"}}`+"\x00", na)))
				// time passes while A's reply is stuck: whatever write deadline is in force (the serving context has none) expires
				vsched.GoDaemon("clock", func() {
					sa := ca.Peer()
					vsched.Yield("clock", "K", func() bool { return sa.WriteCalls >= 1 && sa.WrArmed() })
					sa.FireDeadline()
				})
				vsched.Yield("wait-A-stuck", "H", func() bool { return ca.Peer().WriteCalls >= 1 })
				cb, _ := l.Dial("b")
				connB := varlink.VerifNewConnection(cb)
				var out struct {
					P string `json:"p"`
				}
				if err := connB.Call(live, "t.f.Fill", map[string]interface{}{"n": nb, "ch": "b"}, &out); err != nil || out.P != strings.Repeat("b", nb) {
					fail("connection B: Call returned %d bytes (err %v), want %d x 'b'", len(out.P), err, nb)
				}
				if _, p := streamOK(cb.Received()); p != "" {
					fail("connection B, service -> client: %s", p)
				}
				ca.Peer().Cap = 0
				pa := &rawPeer{c: ca}
				pa.readFrame()
				got, p := fillFrame(ca.Received())
				if p != "" {
					fail("connection A, service -> client (reply written after B's was encoded): %s", p)
				} else if got != strings.Repeat("a", na) {
					fail("connection A: reply carries %d bytes starting %q, want %d x 'a'", len(got), short(got)[:min(len(got), 20)], na)
				}
				connB.Close()
				ca.Close()
			} else {
				// client side: two Connections of this process, A's Send is stuck in the write
				pa, ma := vnet.Pipe("ua")
				pb, mb := vnet.Pipe("ub")
				ma.Cap = -1
				connA, connB := varlink.VerifNewConnection(ma), varlink.VerifNewConnection(mb)
				sentA := false
				vsched.GoDaemon("A", func() {
					connA.Send(live, "t.f.Fill", map[string]interface{}{"n": na, "ch": "a", "p": strings.Repeat("a", na)}, varlink.Oneway)
					sentA = true
				})
				vsched.GoDaemon("clock", func() {
					vsched.Yield("clock", "K", func() bool { return ma.WriteCalls >= 1 && ma.WrArmed() })
					ma.FireDeadline()
				})
				vsched.Yield("wait-A-stuck", "H", func() bool { return ma.WriteCalls >= 1 })
				if _, err := connB.Send(live, "t.f.Fill", map[string]interface{}{"n": nb, "ch": "b", "p": strings.Repeat("b", nb)}, varlink.Oneway); err != nil {
					fail("connection B: Send: %v", err)
				}
				ma.Cap = 0
				vsched.Yield("wait-A-sent", "H", func() bool { return sentA })
				for _, e := range []struct {
					c    *vnet.Conn
					ch   string
					n    int
					name string
				}{{pa, "a", na, "A"}, {pb, "b", nb, "B"}} {
					got, p := fillFrame(e.c.Received())
					if p != "" {
						fail("connection %s, client -> service: %s", e.name, p)
					} else if got != strings.Repeat(e.ch, e.n) {
						fail("connection %s: call carries %d bytes starting %q, want %d x %q", e.name, len(got), short(got)[:min(len(got), 20)], e.n, e.ch)
					}
				}
			}
			st.cases++
		case "rxservice":
			// a raw client sends calls of the given sizes under the given segmentation; the handler logs
			stream, want := c02Messages(d.Seq, "call")
			c, _ := l.Dial("c0")
			for _, ch := range chunksOf(stream, d.Cuts) {
				c.Write([]byte(ch))
			}
			c.CloseWrite()
			p := &rawPeer{c: c}
			var replies []string
			for {
				r, ok := p.readFrame()
				if !ok {
					break
				}
				replies = append(replies, r)
			}
			st.cases++
			if strings.Join(st.recv, "|") != strings.Join(want, "|") {
				fail("service recovered %d messages %s, sent %d %s", len(st.recv), short(strings.Join(st.recv, "|")), len(want), short(strings.Join(want, "|")))
			}
			if len(replies) != len(want) {
				fail("%d replies for %d calls", len(replies), len(want))
			}
		case "rxcancel":
			// three replies arrive in one segment; the second receive runs under a context that is already over.
			// Where one message ends and the next begins does not depend on that: the third receive yields a whole
			// message (the second or the third one), never a piece or two glued together.
			stream, want := c02Messages(d.Seq, "reply")
			peer, mine := vnet.Pipe("u")
			conn := varlink.VerifNewConnection(mine)
			vsched.GoDaemon("P", func() {
				p := &rawPeer{c: peer}
				if _, ok := p.readFrame(); !ok {
					return
				}
				peer.Write([]byte(stream))
			})
			recv, err := conn.Send(live, "a.b.M", nil, varlink.More)
			if err != nil {
				fail("Send: %v", err)
				break
			}
			type rep struct {
				ID string `json:"id"`
				P  string `json:"p"`
			}
			var r0, r1, r2 rep
			if _, err := recv(live, &r0); err != nil || r0.ID != "m0" {
				fail("first receive: %v %+v", err, r0.ID)
				break
			}
			dead := vnet.NewCtx("dead")
			if d.Cuts != nil {
				dead = vnet.NewCtxDeadline("dead")
				dead.Expire()
			} else {
				dead.Cancel()
			}
			_, err1 := recv(dead, &r1)
			_, err2 := recv(live, &r2)
			st.cases++
			okID := r2.ID == "m2" || (r2.ID == "m1" && (err1 != nil || r1.ID == ""))
			if err2 != nil || !okID {
				fail("client, replies %v in one segment: receive under a finished context returned (%q, %v), the next receive under a live context returned (%q, %d bytes, %v) instead of a whole following message", want, r1.ID, err1, r2.ID, len(r2.P), err2)
			}
		case "rxclient":
			stream, want := c02Messages(d.Seq, "reply")
			peer, mine := vnet.Pipe("u")
			conn := varlink.VerifNewConnection(mine)
			vsched.GoDaemon("P", func() {
				p := &rawPeer{c: peer}
				if _, ok := p.readFrame(); !ok {
					return
				}
				for _, ch := range chunksOf(stream, d.Cuts) {
					peer.Write([]byte(ch))
				}
				peer.Close()
			})
			recv, err := conn.Send(live, "a.b.M", nil, varlink.More)
			if err != nil {
				fail("Send: %v", err)
				break
			}
			for range want {
				var out struct {
					ID string `json:"id"`
					P  string `json:"p"`
				}
				if _, err := recv(live, &out); err != nil {
					fail("receive %d failed: %v", len(st.recv), err)
					break
				}
				st.recv = append(st.recv, fmt.Sprintf("%s:%d", out.ID, len(out.P)))
			}
			st.cases++
			if strings.Join(st.recv, "|") != strings.Join(want, "|") {
				fail("client recovered %s, sent %s", strings.Join(st.recv, "|"), strings.Join(want, "|"))
			}
		}
		st.done = true
	}
}

// c02Messages builds a stream of messages of the named sizes; want lists "<id>:<payload length>".
func c02Messages(seq []string, kind string) (stream string, want []string) {
	for i, sz := range seq {
		var n int
		fmt.Sscanf(sz, "%d", &n)
		id := fmt.Sprintf("m%d", i)
		var head, tail string
		if kind == "call" {
			head, tail = `{"method":"t.f.Log","parameters":{"id":"`+id+`","p":"`, `"}}`
		} else {
			cont := `"continues":true,`
			if i == len(seq)-1 {
				cont = ""
			}
			head, tail = `{`+cont+`"parameters":{"id":"`+id+`","p":"`, `"}}`
		}
		pad := n - len(head) - len(tail)
		if pad < 0 {
			pad = 0
		}
		stream += head + strings.Repeat("p", pad) + tail + "\x00"
		want = append(want, fmt.Sprintf("%s:%d", id, pad))
	}
	return
}

type c02Echo struct {
	st    *c02State
	value interface{}
	path  string
}

func (e *c02Echo) VarlinkGetName() string        { return "t.f" }
func (e *c02Echo) VarlinkGetDescription() string { return "interface t.f" }
func (e *c02Echo) VarlinkDispatch(ctx context.Context, c varlink.Call, method string) error {
	switch method {
	case "Log":
		var in struct {
			ID string `json:"id"`
			P  string `json:"p"`
		}
		if err := c.GetParameters(&in); err != nil {
			return c.ReplyInvalidParameter(ctx, "parameters")
		}
		e.st.recv = append(e.st.recv, fmt.Sprintf("%s:%d", in.ID, len(in.P)))
		return c.Reply(ctx, map[string]string{"id": in.ID})
	case "Fill":
		var in struct {
			N  int    `json:"n"`
			Ch string `json:"ch"`
		}
		if err := c.GetParameters(&in); err != nil {
			return c.ReplyInvalidParameter(ctx, "parameters")
		}
		return c.Reply(ctx, map[string]string{"p": strings.Repeat(in.Ch, in.N)})
	case "Echo":
		v := map[string]interface{}{"v": e.value}
		switch e.path {
		case "error":
			if err := c.ReplyError(ctx, "t.f.E", v); err != nil {
				return c.Reply(ctx, nil)
			}
			return nil
		case "more":
			c.Continues = true
			if err := c.Reply(ctx, v); err != nil {
				c.Continues = false
				return c.Reply(ctx, nil)
			}
			c.Continues = false
			return c.Reply(ctx, v)
		case "top", "topup":
			if err := c.Reply(ctx, e.value); err != nil {
				return c.Reply(ctx, nil)
			}
			return nil
		default:
			if err := c.Reply(ctx, v); err != nil {
				// the value cannot be encoded: nothing was written, answer with an empty reply
				return c.Reply(ctx, nil)
			}
			return nil
		}
	}
	return c.ReplyMethodNotFound(ctx, method)
}

func c02Obs(x *vsched.Exec) string {
	w := worldOf(x)
	if w == nil {
		return "noworld"
	}
	st := w.LC.(*c02State)
	return fmt.Sprintf("cases=%d recv=%v fail=%s done=%v", st.cases, st.recv, st.fail, st.done)
}

func c02Check(x *vsched.Exec) (string, string) {
	if x.Panic != "" {
		return "panic: " + x.Panic, "panic"
	}
	w := worldOf(x)
	st := w.LC.(*c02State)
	if st.fail != "" {
		k := "bad-frame-emitted"
		if strings.Contains(st.fail, "recovered") || strings.Contains(st.fail, "replies for") || strings.Contains(st.fail, "receive ") {
			k = "messages-depend-on-segmentation"
		}
		return st.fail, "symptom=" + k
	}
	if !st.done {
		return fmt.Sprintf("did not finish (parked %v)", x.Parked), "symptom=stuck"
	}
	return "", ""
}

func c02Cases(x *vsched.Exec) int {
	if w := worldOf(x); w != nil {
		if st, ok := w.LC.(*c02State); ok {
			return st.cases
		}
	}
	return 0
}

func scenariosC02(tier string) []Scen {
	var out []Scen
	add := func(d c02Desc) {
		out = append(out, Scen{Desc: d, Bound: 0, Horizon: 100000000, Body: c02Body(d, tier), Check: c02Check, Obs: c02Obs, Cases: c02Cases})
	}
	names, _ := c02Values(tier)
	for i := 0; i < len(names); i += 4 {
		add(c02Desc{Kind: "emit", Values: names[i:min(i+4, len(names))]})
	}
	for _, stall := range []string{"stalled", "free"} {
		for _, cause := range []string{"cancel", "deadline"} {
			d := c02Desc{Kind: "emitfail", Seq: []string{stall, cause}}
			out = append(out, Scen{Desc: d, Bound: 2, Body: c02Body(d, tier), Check: c02Check, Obs: c02Obs, Cases: c02Cases})
		}
	}
	for _, seq := range [][]string{{"60", "60", "60"}, {"60", "200", "60"}, {"100", "60", "300"}} { // all three fit the reader's buffer: none is cut by the interruption
		for _, cuts := range [][]int{nil, {0}} {
			d := c02Desc{Kind: "rxcancel", Seq: seq, Cuts: cuts}
			out = append(out, Scen{Desc: d, Bound: 2, Body: c02Body(d, tier), Check: c02Check, Obs: c02Obs, Cases: c02Cases})
		}
	}
	for _, k := range []string{"1", "7", "30", "60"} {
		for _, v := range []string{"wv", "rv"} {
			d := c02Desc{Kind: "duplex", Seq: []string{v, k}}
			out = append(out, Scen{Desc: d, Bound: 2, Body: c02Body(d, tier), Check: c02Check, Obs: c02Obs, Cases: c02Cases})
		}
	}
	for _, kind := range []string{"emit2s", "emit2c"} {
		for _, a := range []string{"10", "600", "5000", "70000"} {
			for _, b := range []string{"10", "600", "5000", "70000"} {
				out = append(out, Scen{Desc: c02Desc{Kind: kind, Seq: []string{a, b}}, Bound: 1, Horizon: 100000000, Body: c02Body(c02Desc{Kind: kind, Seq: []string{a, b}}, tier), Check: c02Check, Obs: c02Obs, Cases: c02Cases})
			}
		}
	}
	sizes := []string{"60", "4095", "4096", "4097", "70000"}
	var seqs [][]string
	for _, a := range sizes {
		seqs = append(seqs, []string{a})
		for _, b := range sizes {
			seqs = append(seqs, []string{a, b})
			if tier != "quick" {
				for _, c := range sizes {
					seqs = append(seqs, []string{a, b, c})
				}
			}
		}
	}
	seqs = append(seqs, []string{"60", "60", "60"}, []string{"4096", "60", "4097"})
	for _, kind := range []string{"rxservice", "rxclient"} {
		for _, sq := range seqs {
			k := "call"
			if kind == "rxclient" {
				k = "reply"
			}
			stream, _ := c02Messages(sq, k)
			n := len(stream)
			// interesting offsets: start, every frame boundary +-1, every multiple of 4096 +-1, end
			seen := map[int]bool{}
			var offs []int
			addOff := func(o int) {
				if o > 0 && o < n && !seen[o] {
					seen[o] = true
					offs = append(offs, o)
				}
			}
			if n < 300 {
				for o := 1; o < n; o++ {
					addOff(o)
				}
			} else {
				for _, o := range []int{1, 2, n - 1, n - 2} {
					addOff(o)
				}
				for i := 0; i < n; i++ {
					if stream[i] == 0 {
						addOff(i - 1)
						addOff(i)
						addOff(i + 1)
						addOff(i + 2)
					}
				}
				for m := 4096; m < n; m += 4096 {
					addOff(m - 1)
					addOff(m)
					addOff(m + 1)
				}
			}
			add(c02Desc{Kind: kind, Seq: sq})
			if n < 20000 {
				add(c02Desc{Kind: kind, Seq: sq, Cuts: []int{-1}})
			}
			sortInts(offs)
			for _, a := range offs {
				add(c02Desc{Kind: kind, Seq: sq, Cuts: []int{a}})
			}
			if tier != "quick" || len(sq) == 1 {
				for i, a := range offs {
					for _, b := range offs[i+1:] {
						add(c02Desc{Kind: kind, Seq: sq, Cuts: []int{a, b}})
					}
				}
			}
		}
	}
	return out
}

func sortInts(a []int) {
	for i := 1; i < len(a); i++ {
		for j := i; j > 0 && a[j] < a[j-1]; j-- {
			a[j], a[j-1] = a[j-1], a[j]
		}
	}
}
