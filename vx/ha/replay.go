package main

import (
	"encoding/json"
	"fmt"
	"os"
	"strings"

	"vx/vsched"
)

// doReplay re-executes one recorded choice sequence without the explorer.
func doReplay(prop string, scens []Scen, path string) int {
	b, err := os.ReadFile(path)
	if err != nil {
		fmt.Fprintln(os.Stderr, err)
		return 2
	}
	var r struct {
		Property string          `json:"property"`
		Index    int             `json:"scenario_index"`
		Scenario json.RawMessage `json:"scenario"`
		Choices  []int           `json:"choices"`
		Key      string          `json:"key"`
	}
	if err := json.Unmarshal(b, &r); err != nil {
		fmt.Fprintln(os.Stderr, err)
		return 2
	}
	// find the scenario by description (index is only a hint: tiers differ)
	idx := -1
	for i, sc := range scens {
		if jstrCompact(json.RawMessage(jstr(sc.Desc))) == jstrCompact(r.Scenario) {
			idx = i
			break
		}
	}
	if idx < 0 {
		fmt.Fprintln(os.Stderr, "scenario of the replay file not found in this tier; try -tier thorough")
		return 2
	}
	sc := scens[idx]
	// code under test that makes choices of its own under a fixed schedule (map iteration) may need a few runs
	for attempt := 0; attempt < 10; attempt++ {
		x := vsched.Run(r.Choices, vsched.Config{Trace: sc.Horizon == 0, Horizon: sc.Horizon}, sc.Body)
		msg, key := judgeExec(sc, x)
		if msg != "" || attempt == 9 {
			fmt.Println(strings.Join(x.Trace, "\n"))
			fmt.Printf("observation: %s\n", sc.Obs(x))
		}
		if msg != "" {
			fmt.Printf("VIOLATION property=%s replay=%s\n  key=%s\n  %s\n", prop, path, key, msg)
			return 1
		}
	}
	fmt.Println("replay: property holds on this schedule")
	return 0
}

func jstrCompact(raw json.RawMessage) string {
	var v interface{}
	json.Unmarshal(raw, &v)
	// re-marshal through the typed description is not possible here; compare on canonical maps
	return jstr(v)
}
