package main

import (
	"time"
	"context"
	"encoding/json"
	"fmt"
	"math"
	"strings"

	"github.com/varlink/go/varlink"
	"vx/vnet"
	"vx/vsched"
)

// ---------------------------------------------------------------------------------------------
// C03: call and reply parameters survive the round trip unchanged.

var c03Leaves = []string{`null`, `true`, `false`, `0`, `-0`, `-1`, `9007199254740993`, `18446744073709551616`, `1.5`, `1E+2`, `1e-7`, `""`, `"é\u0000😀"`, `{}`, `[]`}

func c03ValuesAt(depth int) []string {
	if depth == 0 {
		return c03Leaves
	}
	prev := c03ValuesAt(depth - 1)
	out := append([]string(nil), c03Leaves...)
	for _, v := range prev {
		out = append(out, "["+v+"]", `{"k":`+v+`}`)
	}
	for _, v := range prev {
		for _, w := range c03Leaves {
			out = append(out, "["+v+","+w+"]")
		}
	}
	return out
}

var c03DocCache = map[string][]string{}

func c03Docs(tier string) []string {
	if d, ok := c03DocCache[tier]; ok {
		return d
	}
	depth := 1
	if tier != "quick" {
		depth = 2
	}
	vals := c03ValuesAt(depth)
	keys := []string{`"a"`, `"é"`, `""`}
	docs := []string{`{}`}
	for _, k := range keys {
		for _, v := range vals {
			docs = append(docs, "{"+k+":"+v+"}")
		}
	}
	for i, k1 := range keys {
		k2 := keys[(i+1)%len(keys)]
		for _, v := range vals {
			for _, w := range c03Leaves {
				docs = append(docs, "{"+k1+":"+v+","+k2+":"+w+"}")
			}
		}
	}
	docs = append(docs, `{"a" : 1 , "b":[ 1 ,2 ] }`, `{"a":"é😀\/"}`, `{"n":1.0}`, `{"n":1e400}`, `{"n":-1E-400}`, `{"n":0.1000000000000000055511151231257827}`)
	c03DocCache[tier] = docs
	return docs
}

type c03Desc struct {
	Kind   string   `json:"kind"` // docs | more | typed
	From   int      `json:"from"`
	To     int      `json:"to"`
	Sample []string `json:"sample,omitempty"`
	Timed  bool     `json:"timed,omitempty"` // the service is started with an idle timeout: it concerns the listener only, never a call in progress
}

type c03State struct {
	fail  string
	cases int
	done  bool
}

type c03Echo struct {
	got   []string // raw parameters seen by the handler
	seq   []string // more: documents to reply
	done  int      // more: handler invocations that have finished
	typed interface{}
}

func (e *c03Echo) VarlinkGetName() string        { return "t.r" }
func (e *c03Echo) VarlinkGetDescription() string { return "interface t.r" }
func (e *c03Echo) VarlinkDispatch(ctx context.Context, c varlink.Call, method string) error {
	var raw json.RawMessage
	if err := c.GetParameters(&raw); err != nil {
		e.got = append(e.got, "ERR:"+err.Error())
	} else {
		e.got = append(e.got, string(raw))
		// reading is not consuming: a second look at the same call (a generic front end decodes, then the typed
		// handler does) yields the same parameters
		var again json.RawMessage
		c2 := c
		if err := c2.GetParameters(&again); err != nil || string(again) != string(raw) {
			e.got = append(e.got, fmt.Sprintf("SECOND-READ-DIFFERS: %s (err %v)", string(again), err))
		}
	}
	switch method {
	case "Echo":
		return c.Reply(ctx, raw)
	case "More":
		for i, d := range e.seq {
			c.Continues = i < len(e.seq)-1
			var params interface{} = json.RawMessage(d)
			if d == "<none>" {
				params = nil // a reply without a parameters member
			}
			if err := c.Reply(ctx, params); err != nil {
				e.done++
				return err
			}
			// the call's parameters are still what they were after a reply has gone out
			var after json.RawMessage
			if err := c.GetParameters(&after); err != nil || string(after) != string(raw) {
				e.got = append(e.got, fmt.Sprintf("READ-AFTER-REPLY-DIFFERS: %s (err %v)", string(after), err))
			}
		}
		e.done++
		return nil
	case "Typed":
		return c.Reply(ctx, e.typed)
	}
	return c.ReplyMethodNotFound(ctx, method)
}

type c03Typed struct {
	I64 int64              `json:"i64"`
	U64 uint64             `json:"u64"`
	F   float64            `json:"f"`
	S   string             `json:"s"`
	B   bool               `json:"b"`
	P   *int64             `json:"p,omitempty"`
	M   map[string]int64   `json:"m"`
	A   []string           `json:"a"`
	N   *struct{ X int64 } `json:"n"`
}

func c03Body(d c03Desc, tier string) func() {
	return func() {
		w := newWorld()
		st := &c03State{}
		w.LC = st
		fail := func(format string, a ...interface{}) {
			if st.fail == "" {
				st.fail = fmt.Sprintf(format, a...)
			}
		}
		live := vnet.NewCtx("live")
		s, _ := varlink.NewService("v", "p", "1", "u")
		echo := &c03Echo{}
		s.RegisterInterface(echo)
		w.S = s
		w.Ctx = vnet.NewCtx("serve")
		l := vnet.NewListener("L0")
		vsched.GoDaemon("M", func() {
			s.VerifSetListener(l)
			if d.Timed {
				s.DoListen(w.Ctx, time.Hour)
			} else {
				s.DoListen(w.Ctx, 0)
			}
		})
		c, _ := l.Dial("c0")
		conn := varlink.VerifNewConnection(c)
		docs := c03Docs(tier)
		switch d.Kind {
		case "docs":
			for i, doc := range docs[d.From:d.To] {
				echo.got = echo.got[:0]
				var out json.RawMessage
				var err error
				if i%16 == 5 {
					// a call without a parameters member behind calls that had one: the handler sees none (an error from
					// GetParameters, or an empty/null document), never what an earlier call carried
					echo.got = echo.got[:0]
					var outn json.RawMessage
					// (Send, not Call: Call wraps its argument and so always sends a parameters member)
					recvn, err := conn.Send(live, "t.r.Echo", nil, 0)
					if err == nil {
						_, err = recvn(live, &outn)
					}
					st.cases++
					if err != nil || len(echo.got) != 1 || !(strings.HasPrefix(echo.got[0], "ERR:") || echo.got[0] == "null" || echo.got[0] == "{}") {
						fail("a call without parameters (after a call with %s): the handler read %v (err %v)", doc, echo.got, err)
						break
					}
					echo.got = echo.got[:0]
				}
				if i%16 == 10 || i == d.To-d.From-1 {
					// a oneway call with nothing behind it: the handler reads it although the client stays silent
					// afterwards (and, for the last document of the batch, closes the connection at once)
					_, err = conn.Send(live, "t.r.Echo", json.RawMessage(doc), varlink.Oneway)
					if err != nil {
						fail("document %s: oneway Send failed: %v", doc, err)
						break
					}
					if i == d.To-d.From-1 {
						conn.Close()
					}
					vsched.Yield("wait-oneway-handled", "H", func() bool { return len(echo.got) >= 1 })
					st.cases++
					if len(echo.got) != 1 || !rawJSONEqual([]byte(echo.got[0]), []byte(doc)) {
						fail("document %s sent oneway: the handler read %v", doc, echo.got)
						break
					}
					continue
				}
				if i%2 == 0 {
					err = conn.Call(live, "t.r.Echo", json.RawMessage(doc), &out)
				} else {
					var recv func(context.Context, interface{}) (uint64, error)
					// every second Send runs under a per-operation context that is finished (cancelled, or expired)
					// as soon as Send has returned, the way a timeout helper around Send does; the receive function
					// is governed by the context it is given
					sctx := live
					switch i % 8 {
					case 3:
						sctx = vnet.NewCtx("send-op")
					case 7:
						sctx = vnet.NewCtxDeadline("send-op-deadline")
					}
					recv, err = conn.Send(sctx, "t.r.Echo", json.RawMessage(doc), 0)
					switch i % 8 {
					case 3:
						sctx.Cancel()
					case 7:
						sctx.Expire()
					}
					if err == nil {
						var fl uint64
						fl, err = recv(live, &out)
						if fl != 0 {
							fail("document %s: single reply carries flags %d", doc, fl)
						}
					}
				}
				st.cases++
				if err != nil {
					fail("document %s: call failed: %v", doc, err)
					break
				}
				if len(echo.got) != 1 || !rawJSONEqual([]byte(echo.got[0]), []byte(doc)) {
					fail("document %s: the handler read %v", doc, echo.got)
					break
				}
				if !rawJSONEqual(out, []byte(doc)) {
					fail("document %s replied by the handler arrived at the client as %s", doc, string(out))
					break
				}
			}
		case "more":
			// every more-sequence of length 0..3 over a small set of distinct documents
			pool := []string{`{"i":1}`, `{"n":9007199254740993}`, `{"s":"é\u0000"}`, `{}`, `<none>`}
			var seqs [][]string
			seqs = append(seqs, nil)
			for _, a := range pool {
				seqs = append(seqs, []string{a})
				for _, b := range pool {
					seqs = append(seqs, []string{a, b})
					for _, cc := range pool {
						seqs = append(seqs, []string{a, b, cc})
					}
				}
			}
			if d.Timed {
				seqs = [][]string{{pool[0], pool[1], pool[2]}, {pool[3]}}
			}
			for si, sq := range seqs {
				echo.seq = sq
				sctx := live
				if si%2 == 1 {
					sctx = vnet.NewCtx("send-op")
				}
				echo.got = echo.got[:0]
				// (a request longer than any of the replies, and one shorter than most)
				moreParams := `{"q":1}`
				if si%3 != 2 {
					moreParams = `{"q":1,"pad":"` + strings.Repeat("p", 40+si%7) + `","z":[1,2,3]}`
				}
				recv, err := conn.Send(sctx, "t.r.More", json.RawMessage(moreParams), varlink.More)
				if sctx != live {
					sctx.Cancel() // the Send is over; every reply of the sequence is still to be received under live
				}
				if err != nil {
					fail("Send more: %v", err)
					break
				}
				st.cases++
				if len(sq) == 0 {
					// the handler never replies: nothing to receive; use a fresh connection afterwards
					vsched.Yield("wait-more-handler-done", "H", func() bool { return echo.done > 0 })
					echo.done = 0
					c, _ = l.Dial("")
					conn = varlink.VerifNewConnection(c)
					continue
				}
				for i, want := range sq {
					var out json.RawMessage
					fl, err := recv(live, &out)
					if err != nil {
						fail("more-sequence %v: receive %d failed: %v", sq, i, err)
						break
					}
					if want == "<none>" {
						// the reply has no parameters member: a fresh out variable must stay untouched
						if len(out) != 0 && string(out) != "null" {
							fail("more-sequence %v: reply %d carries no parameters but arrived as %s", sq, i, string(out))
						}
					} else if !rawJSONEqual(out, []byte(want)) {
						fail("more-sequence %v: reply %d arrived as %s", sq, i, string(out))
					}
					wantCont := i < len(sq)-1
					if (fl&varlink.Continues != 0) != wantCont {
						fail("more-sequence %v: reply %d of %d has continues=%v", sq, i, len(sq), fl&varlink.Continues != 0)
					}
				}
				if st.fail != "" {
					break
				}
				// what the handler read, before its first reply and again after each one
				vsched.Yield("wait-more-handler-done", "H", func() bool { return echo.done > 0 })
				echo.done = 0
				if len(echo.got) != 1 || !rawJSONEqual([]byte(echo.got[0]), []byte(moreParams)) {
					fail("more-sequence %v called with %s: the handler read %v", sq, moreParams, echo.got)
					break
				}
			}
		case "pipeline":
			// pipelined use of one connection: every order of up to 4 Sends and their receives in which a
			// receive never overtakes its Send; the i-th receive must yield the reply to the i-th call
			var words []string
			var rec func(w string, sends, recvs int)
			rec = func(w string, sends, recvs int) {
				if sends == recvs && sends > 0 {
					words = append(words, w)
				}
				if sends < 4 {
					rec(w+"S", sends+1, recvs)
				}
				if recvs < sends {
					rec(w+"R", sends, recvs+1)
				}
			}
			rec("", 0, 0)
			if len(d.Sample) == 1 {
				// one word per scenario (explored under schedule deviations): both ends see merged segments
				words = []string{d.Sample[0]}
			}
			passes := append(append([]string(nil), words...), words...)
			if len(d.Sample) == 1 {
				passes = []string{"", d.Sample[0]} // merged segments only
			}
			for wi, wd := range passes {
				if wd == "" {
					continue
				}
				c, _ = l.Dial("")
				// second pass: replies that arrive while earlier ones are unread are merged by the network, so
				// that one read of the client pulls in several replies
				c.Coalesce = wi >= len(words)
				c.Peer().Coalesce = c.Coalesce // and the service reads pipelined calls in one segment, answering them back to back
				conn = varlink.VerifNewConnection(c)
				var recvs []func(context.Context, interface{}) (uint64, error)
				sent, got := 0, 0
				for _, op := range wd {
					if op == 'S' {
						doc := fmt.Sprintf(`{"i":%d,"pad":"%s","n":9007199254740993}`, sent, strings.Repeat("p", sent*1500))
						r, err := conn.Send(live, "t.r.Echo", json.RawMessage(doc), 0)
						if err != nil {
							fail("pipeline %s: Send %d failed: %v", wd, sent, err)
							break
						}
						recvs = append(recvs, r)
						sent++
					} else {
						var out struct {
							I *int `json:"i"`
						}
						if _, err := recvs[got](live, &out); err != nil || out.I == nil || *out.I != got {
							v := "<none>"
							if out.I != nil {
								v = fmt.Sprint(*out.I)
							}
							fail("pipeline %s: receive %d yielded the reply to call %s (err %v)", wd, got, v, err)
							break
						}
						got++
					}
				}
				st.cases++
				conn.Close()
				if st.fail != "" {
					break
				}
			}
		case "typed":
			one := int64(math.MinInt64)
			vals := []c03Typed{
				{},
				{I64: math.MaxInt64, U64: math.MaxUint64, F: 1.5, S: "é\x00😀\"", B: true, P: &one, M: map[string]int64{"": math.MinInt64, "k": 9007199254740993}, A: []string{"", "x"}, N: &struct{ X int64 }{-9007199254740993}},
				{I64: math.MinInt64, F: -1e300, M: map[string]int64{}, A: []string{}},
				{F: 5e-324}, {F: math.MaxFloat64}, {F: 0.1}, {F: 1e21}, {F: -0.0},
				{S: `\u003c literal backslash-u, not an escape`, A: []string{`\n`, `\\`, `\"`, `\u0000`, "<>&", "\u2028\u2029"}, M: map[string]int64{`\u0026`: 1, "<": 2}},
			}
			for _, v := range vals {
				echo.got = echo.got[:0]
				echo.typed = v
				var back c03Typed
				if err := conn.Call(live, "t.r.Echo", v, &back); err != nil {
					fail("typed %+v: %v", v, err)
					break
				}
				st.cases++
				if jstr(back) != jstr(v) {
					fail("typed value %s came back from the echo as %s", jstr(v), jstr(back))
				}
				var hv c03Typed
				if len(echo.got) != 1 || json.Unmarshal([]byte(echo.got[0]), &hv) != nil || jstr(hv) != jstr(v) {
					fail("typed value %s was read by the handler as %v", jstr(v), echo.got)
				}
				var back2 c03Typed
				if err := conn.Call(live, "t.r.Typed", map[string]int{}, &back2); err != nil || jstr(back2) != jstr(v) {
					fail("typed reply %s arrived as %s (%v)", jstr(v), jstr(back2), err)
				}
			}
		}
		st.done = true
	}
}

func c03Obs(x *vsched.Exec) string {
	w := worldOf(x)
	if w == nil {
		return "noworld"
	}
	st := w.LC.(*c03State)
	return fmt.Sprintf("cases=%d fail=%s done=%v", st.cases, st.fail, st.done)
}

func c03Check(x *vsched.Exec) (string, string) {
	if x.Panic != "" {
		return "panic: " + x.Panic, "panic"
	}
	w := worldOf(x)
	st := w.LC.(*c03State)
	if st.fail != "" {
		k := "value-changed"
		if strings.Contains(st.fail, "continues") || strings.Contains(st.fail, "flags") {
			k = "continues-flag"
		}
		return st.fail, "symptom=" + k
	}
	if !st.done {
		return fmt.Sprintf("did not finish (parked %v)", x.Parked), "symptom=stuck"
	}
	return "", ""
}

func c03Cases(x *vsched.Exec) int {
	if w := worldOf(x); w != nil {
		if st, ok := w.LC.(*c03State); ok {
			return st.cases
		}
	}
	return 0
}

func pb0(tier string) int {
	if tier != "quick" {
		return 3
	}
	return 2
}

func scenariosC03(tier string) []Scen {
	var out []Scen
	docs := c03Docs(tier)
	const batch = 300
	for from := 0; from < len(docs); from += batch {
		to := min(from+batch, len(docs))
		d := c03Desc{Kind: "docs", From: from, To: to, Sample: docs[from:min(from+2, to)]}
		out = append(out, Scen{Desc: d, Bound: 0, Horizon: 100000000, Body: c03Body(d, tier), Check: c03Check, Obs: c03Obs, Cases: c03Cases})
	}
	for _, k := range []string{"more", "typed", "pipeline"} {
		d := c03Desc{Kind: k}
		out = append(out, Scen{Desc: d, Bound: 0, Horizon: 100000000, Body: c03Body(d, tier), Check: c03Check, Obs: c03Obs, Cases: c03Cases})
	}
	// a service with an idle timeout: whenever its clock runs out, a call in progress and its replies are not its business
	dt := c03Desc{Kind: "more", Timed: true}
	out = append(out, Scen{Desc: dt, Bound: pb0(tier), Body: c03Body(dt, tier), Check: c03Check, Obs: c03Obs, Cases: c03Cases})
	// pipelining under schedule deviations: whether one read of the client pulls in several replies depends on
	// the order in which the service's and the client's reads run
	pb := 2
	if tier != "quick" {
		pb = 3
	}
	for _, wd := range []string{"SSRR", "SSRSRR", "SSSRRR", "SRSSRSRR"} {
		d := c03Desc{Kind: "pipeline", Sample: []string{wd}}
		out = append(out, Scen{Desc: d, Bound: pb, Body: c03Body(d, tier), Check: c03Check, Obs: c03Obs, Cases: c03Cases})
	}
	return out
}
