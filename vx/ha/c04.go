package main

import (
	"context"
	"encoding/json"
	"fmt"
	"strings"

	"github.com/varlink/go/varlink"
	"vx/vnet"
	"vx/vsched"
)

// ---------------------------------------------------------------------------------------------
// C04: method routing and the standard error replies.

// echoDisp logs every invocation and answers with the interface and method it was handed.
type echoDisp struct {
	name string
	log  *[]string
}

func (e *echoDisp) VarlinkGetName() string        { return e.name }
func (e *echoDisp) VarlinkGetDescription() string { return "interface " + e.name }
func (e *echoDisp) VarlinkDispatch(ctx context.Context, c varlink.Call, method string) error {
	*e.log = append(*e.log, e.name+"|"+method)
	return c.Reply(ctx, map[string]string{"i": e.name, "m": method})
}

// rawPeer is a synchronous raw client on a controlled connection.
type rawPeer struct {
	c    *vnet.Conn
	rest []byte
}

// readFrame returns the next NUL-terminated frame (without the NUL); ok=false when the stream ended first.
func (p *rawPeer) readFrame() (string, bool) {
	for {
		if i := strings.IndexByte(string(p.rest), 0); i >= 0 {
			f := string(p.rest[:i])
			p.rest = p.rest[i+1:]
			return f, true
		}
		buf := make([]byte, 65536)
		n, err := p.c.Read(buf)
		p.rest = append(p.rest, buf[:n]...)
		if err != nil {
			return string(p.rest), false
		}
	}
}

type c04Desc struct {
	Set     []string `json:"registered"`
	From    int      `json:"from"` // batch [From, To) of the method-string enumeration
	To      int      `json:"to"`
	NonCall bool     `json:"noncall"`       // the non-call frame family instead of method strings
	Pre     bool     `json:"pre,omitempty"` // with NonCall: every frame behind an earlier call of the same connection
	Sample  []string `json:"sample"`
	Params  bool     `json:"params,omitempty"` // the parameter-shape family: representative method strings x every shape of the "parameters" member
}

type c04State struct {
	fail  string
	calls int
	done  bool
	kinds map[string]int
}

// refRoute restates the routing rule with strings.Split (the implementation uses LastIndex).
func refRoute(method string, set map[string]bool) (kind string, arg string) {
	parts := strings.Split(method, ".")
	if len(parts) < 2 {
		return "InvalidParameter", "method"
	}
	iface := strings.Join(parts[:len(parts)-1], ".")
	meth := parts[len(parts)-1]
	if iface == "" {
		return "InvalidParameter", "method"
	}
	if iface == "org.varlink.service" {
		switch meth {
		case "GetInfo", "GetInterfaceDescription":
			return "builtin", meth
		}
		return "MethodNotFound", meth
	}
	if set[iface] {
		return "dispatch", iface + "|" + meth
	}
	return "InterfaceNotFound", iface
}

var c04Strings []string

func c04Methods(tier string) []string {
	if c04Strings != nil {
		return c04Strings
	}
	toks := []string{"", "a", "b", "A", "é", "org", "varlink", "service", "GetInfo"}
	maxTok := 4
	var out []string
	var rec func(parts []string)
	rec = func(parts []string) {
		if len(parts) > 0 {
			out = append(out, strings.Join(parts, "."))
		}
		if len(parts) == maxTok {
			return
		}
		for _, t := range toks {
			rec(append(parts, t))
		}
	}
	rec(nil)
	// near misses of every registrable name and of the built-in interface
	for _, n := range append(append([]string(nil), c04Names...), "org.varlink.service") {
		if n == "" {
			continue
		}
		for _, m := range []string{"M", "GetInfo", ""} {
			full := n + "." + m
			out = append(out, full, n+m, n+"x."+m, strings.ToUpper(n)+"."+m, n[:len(n)-1]+"."+m, n+"..", "."+full, full+".", " "+full, n+" ."+m)
		}
	}
	// characters whose lower- or upper-case form has another byte length (U+023A, U+0130, U+1E9E, U+212A), written raw
	for _, n := range []string{"ȺȺȺȺ", "a.Ⱥ", "İ", "a.b.İİ", "ẞ.x", "KK.a"} {
		out = append(out, n+".M", n+".Ⱥ", n, "a."+n, n+".a.b.c.d")
	}
	// characters that mean something to path/URL/printf helpers a router might be rewritten with
	for _, n := range append(append([]string(nil), c04Names...), "org.varlink.service", "zz") {
		for _, m := range []string{"Pi/ng", "/", "a/b.c", "M/", "/M", "Get/Info", "%s", "M%", "M?x", "M#f", "M:1", "..", "M\\N", "M\tN", "M\n", "*", "M;N", "M N"} {
			out = append(out, n+"."+m)
		}
		out = append(out, n+"/x.M", strings.Replace(n, ".", "/", 1)+".M")
	}
	out = append(out, "org.varlink.service.GetInfo", "org.varlink.service.GetInterfaceDescription", "org.varlink.service.getinfo", "org.varlink.service.GetInfo.x", "org.varlink.service..GetInfo",
		"org.varlink.service.Nope", "org.varlink.service.", "org.varlink.service", "org.varlink.Service.GetInfo", strings.Repeat("a.", 3000)+"M", "a\x00.b", "a.b\x00", "\"", "\\.\\")
	c04Strings = out
	return out
}

// registrable names; the library does not validate them, so the empty name can be registered too - a method string
// without an interface part is still answered InvalidParameter("method") whatever the table holds
var c04Names = []string{"a", "a.b", "a.b.c", "b", "org.varlink", "é.x", "org.varlink.servicex", ""}

var c04NonCalls = []string{`[]`, `5`, `"s"`, `{"method":5}`, `{"method":["a.b"]}`, `{"method":{"a":"b"}}`, `{"method":true}`, `true`, ``, `{`, `{"method":"a.M"`, `{"method":"a.M"}}`, "\xff", `{"method":"a.M","oneway":"yes"}`, `[{"method":"a.M"}]`,
	`null`, `{}`, `{"method":null}`, `{"Method":"a.M"}`, `{"method":"a.M","method":"b.M"}`, `{"method":"a.M","extra":[1,2]}`}

// c04ParamShapes: what a caller may put in the "parameters" member ("" = member absent). The routing rule
// reads the method string alone, so none of these may change where a call goes or which standard error answers it.
var c04ParamShapes = []string{"", `null`, `{}`, `[1,2]`, `"text"`, `7`, `true`, `{"interface":42}`, `{"interface":"a"}`, `{"method":"b.M"}`, `[]`, `{"a":{"b":[null]}}`}

// c04ParamMethods: one or more method strings per routing outcome, near misses included
func c04ParamMethods() []string {
	out := []string{"M", "", ".M", "a.M", "a.", "a.b.M", "a.b.c.M", "b.GetInfo", "zz.M", "org.varlink.M", "org.varlink.servicex.M", "é.x.M",
		"org.varlink.service.Nope", "org.varlink.service.", "org.varlink.service.getinfo", "org.varlink.service.GetInfos", "org.varlink.service.GetInterfaceDescriptions",
		"org.varlink.service.Ping", "org.varlink.service.GetInfo", "org.varlink.Service.GetInfo", "org.varlink.service.x.GetInfo"}
	return out
}

func c04Body(d c04Desc, tier string) func() {
	return func() {
		w := newWorld()
		st := &c04State{kinds: map[string]int{}}
		w.LC = st
		s, _ := varlink.NewService("v", "p", "1", "u")
		var log []string
		set := map[string]bool{}
		for _, n := range d.Set {
			set[n] = true
			if err := s.RegisterInterface(&echoDisp{name: n, log: &log}); err != nil {
				st.fail = "register " + n + ": " + err.Error()
				return
			}
		}
		// a second registration under a name already taken is refused and changes nothing about the routing below
		var dupLog []string
		for i, n := range d.Set {
			if i%2 == 0 {
				if err := s.RegisterInterface(&echoDisp{name: n, log: &dupLog}); err == nil {
					st.fail = "a second registration of " + n + " was accepted"
					return
				}
			}
		}
		defer func() {
			if len(dupLog) != 0 && st.fail == "" {
				st.fail = fmt.Sprintf("calls reached a dispatcher whose registration was refused: %v", dupLog)
			}
		}()
		w.S = s
		w.Ctx = vnet.NewCtx("serve")
		l := vnet.NewListener("L0")
		vsched.GoDaemon("M", func() {
			s.VerifSetListener(l)
			s.DoListen(w.Ctx, 0)
		})
		fail := func(format string, a ...interface{}) {
			if st.fail == "" {
				st.fail = fmt.Sprintf(format, a...)
			}
		}
		if d.NonCall {
			// every frame as the first one of its connection, and behind an earlier call of the same connection whose
			// members (method, flags, parameters) must not live on into a frame that leaves them out
			type pre struct {
				frame            string
				replies, entries int
			}
			pres := []pre{{"", 0, 0}, {`{"method":"org.varlink.service.GetInfo","parameters":{"x":1}}`, 1, 0}, {`{"method":"zz.q.M","oneway":true,"parameters":{"x":1}}`, 0, 0}}
			if len(d.Set) > 0 && d.Set[0] != "" && d.Set[0] != "org.varlink.service" {
				mb, _ := json.Marshal(d.Set[0] + ".M")
				pres = append(pres, pre{`{"method":` + string(mb) + `,"parameters":{"x":1},"more":false}`, 1, 1}, pre{`{"method":` + string(mb) + `,"oneway":true}`, 0, 1}, pre{`{"method":` + string(mb) + `,"upgrade":true}`, 1, 1})
			}
			if d.Pre {
				pres = pres[1:]
			} else {
				pres = pres[:1]
			}
			for _, pr := range pres {
				for _, f := range c04NonCalls {
					c, _ := l.Dial("")
					p := &rawPeer{c: c}
					log = log[:0]
					if pr.frame != "" {
						c.Write([]byte(pr.frame + "\x00"))
					}
					c.Write([]byte(f + "\x00"))
					// a follow-up call shows whether the connection is still usable
					c.Write([]byte(`{"method":"org.varlink.service.GetInfo"}` + "\x00"))
					if _, isCall := classifyCall(f); isCall {
						c.CloseWrite()
					}
					// after a frame that is not a call the client keeps its side open: the service itself must end
					// the connection (the read below returns only then)
					var replies []string
					for {
						r, ok := p.readFrame()
						if !ok {
							break
						}
						replies = append(replies, r)
					}
					_, isCall := classifyCall(f)
					st.calls++
					if pr.frame != "" {
						if len(replies) < pr.replies || len(log) < pr.entries {
							fail("frame %q behind %q: the earlier call got %d replies (%q) and %d dispatches, want %d and %d", f, pr.frame, len(replies), replies, len(log), pr.replies, pr.entries)
							continue
						}
						replies = replies[pr.replies:]
						log = log[pr.entries:]
					}
					if !isCall {
						if len(replies) != 0 || len(log) != 0 {
							fail("frame %q is not a JSON object with a string method: it must not be answered or dispatched and must end the connection; replies %q dispatch log %v", f, replies, log)
						}
						continue
					}
					// a call (possibly with an empty or absent method): exactly one reply, then GetInfo's
					k, _ := classifyCall(f)
					kind, arg := refRoute(k.Method, set)
					if len(replies) != 2 {
						fail("frame %q (method %q): %d replies %q, want its own reply and the follow-up GetInfo's", f, k.Method, len(replies), replies)
						continue
					}
					checkReply(fail, k.Method, replies[0], kind, arg, log)
				}
			}
			st.done = true
			return
		}
		c, err := l.Dial("c0")
		if err != nil {
			st.fail = "dial"
			return
		}
		p := &rawPeer{c: c}
		if d.Params {
			for _, m := range c04ParamMethods() {
				for pi, ps := range append(append([]string(nil), c04ParamShapes...), "", "", `{}`) {
					log = log[:0]
					mb, _ := json.Marshal(m)
					f := `{"method":` + string(mb)
					if ps != "" {
						f += `,"parameters":` + ps
					}
					// the last three rounds carry a flag: where a call goes, and that the connection stays usable
					// after a standard error reply, does not depend on it either
					switch pi - len(c04ParamShapes) {
					case 0:
						f += `,"more":true`
					case 1:
						f += `,"upgrade":true`
					case 2:
						f += `,"upgrade":true,"more":false`
					}
					c.Write([]byte(f + "}\x00"))
					r, ok := p.readFrame()
					st.calls++
					if !ok {
						fail("method %q with parameters %s: the connection ended without a reply (got %q)", m, ps, r)
						break
					}
					if len(p.rest) != 0 {
						fail("method %q with parameters %s: more than one reply: extra bytes %q", m, ps, p.rest)
						break
					}
					kind, arg := refRoute(m, set)
					st.kinds[kind]++
					checkReply(fail, m+" parameters="+ps, r, kind, arg, log)
				}
				if st.fail != "" {
					break
				}
			}
			st.done = true
			return
		}
		ms := c04Methods(tier)
		for _, m := range ms[d.From:d.To] {
			log = log[:0]
			fb, _ := json.Marshal(map[string]string{"method": m})
			c.Write(append(fb, 0))
			r, ok := p.readFrame()
			st.calls++
			if !ok {
				fail("method %q: the connection ended without a reply (got %q)", m, r)
				break
			}
			if len(p.rest) != 0 {
				fail("method %q: more than one reply: extra bytes %q", m, p.rest)
				break
			}
			kind, arg := refRoute(m, set)
			st.kinds[kind]++
			checkReply(fail, m, r, kind, arg, log)
			if st.fail != "" {
				break
			}
		}
		st.done = true
	}
}

func checkReply(fail func(string, ...interface{}), m, reply, kind, arg string, log []string) {
	var r struct {
		Error      string                 `json:"error"`
		Parameters map[string]interface{} `json:"parameters"`
		Continues  bool                   `json:"continues"`
	}
	if err := json.Unmarshal([]byte(reply), &r); err != nil {
		fail("method %q: reply %q is not JSON", m, reply)
		return
	}
	want := func(errName, key, val string) {
		if r.Error != errName || fmt.Sprint(r.Parameters[key]) != val || len(r.Parameters) != 1 {
			fail("method %q: reply %s; the routing rule gives %s{%s: %q}", m, reply, errName, key, val)
		}
		if len(log) != 0 {
			fail("method %q: answered with %s but also dispatched: %v", m, errName, log)
		}
	}
	switch kind {
	case "InvalidParameter":
		want("org.varlink.service.InvalidParameter", "parameter", arg)
	case "MethodNotFound":
		want("org.varlink.service.MethodNotFound", "method", arg)
	case "InterfaceNotFound":
		want("org.varlink.service.InterfaceNotFound", "interface", arg)
	case "builtin":
		if len(log) != 0 {
			fail("method %q: built-in method was handed to a registered dispatcher: %v", m, log)
		}
		if arg == "GetInfo" && (r.Error != "" || r.Parameters["product"] != "p") {
			fail("method %q: GetInfo reply %s", m, reply)
		}
	case "dispatch":
		p := strings.SplitN(arg, "|", 2)
		if len(log) != 1 || log[0] != arg {
			fail("method %q: dispatcher invocations %v; the routing rule hands method %q to interface %q exactly once", m, log, p[1], p[0])
		} else if r.Error != "" || r.Parameters["i"] != p[0] || r.Parameters["m"] != p[1] {
			fail("method %q: reply %s does not come from dispatcher %q with method %q", m, reply, p[0], p[1])
		}
	}
}

func c04Obs(x *vsched.Exec) string {
	w := worldOf(x)
	if w == nil {
		return "noworld"
	}
	st := w.LC.(*c04State)
	return fmt.Sprintf("calls=%d kinds=%v fail=%s done=%v parked=%v", st.calls, st.kinds, st.fail, st.done, x.Parked)
}

func c04Check(x *vsched.Exec) (string, string) {
	if x.Panic != "" {
		return "panic: " + x.Panic, "panic"
	}
	w := worldOf(x)
	st := w.LC.(*c04State)
	if st.fail != "" {
		k := "misrouted"
		if strings.Contains(st.fail, "not a JSON object") {
			k = "non-call-frame-handled"
		} else if strings.Contains(st.fail, "without a reply") || strings.Contains(st.fail, "more than one reply") || strings.Contains(st.fail, "replies") {
			k = "reply-count"
		}
		return st.fail, "symptom=" + k
	}
	if !st.done {
		return fmt.Sprintf("the client script did not finish (parked %v)", x.Parked), "symptom=stuck"
	}
	return "", ""
}

func scenariosC04(tier string) []Scen {
	var sets [][]string
	n := len(c04Names)
	for mask := 0; mask < 1<<n; mask++ {
		var s []string
		for i := 0; i < n; i++ {
			if mask&(1<<i) != 0 {
				s = append(s, c04Names[i])
			}
		}
		if len(s) <= 3 {
			sets = append(sets, s)
		}
	}
	ms := c04Methods(tier)
	var out []Scen
	const batch = 400
	for _, set := range sets {
		for from := 0; from < len(ms); from += batch {
			to := from + batch
			if to > len(ms) {
				to = len(ms)
			}
			d := c04Desc{Set: set, From: from, To: to, Sample: ms[from:min(from+3, to)]}
			out = append(out, Scen{Desc: d, Bound: 0, Horizon: 5000000, Body: c04Body(d, tier), Check: c04Check, Obs: c04Obs, Cases: c04Cases})
		}
		dp := c04Desc{Set: set, Params: true}
		out = append(out, Scen{Desc: dp, Bound: 0, Horizon: 5000000, Body: c04Body(dp, tier), Check: c04Check, Obs: c04Obs, Cases: c04Cases})
		d := c04Desc{Set: set, NonCall: true}
		b := 0
		if len(set) <= 1 {
			b = 1
		}
		out = append(out, Scen{Desc: d, Bound: b, Body: c04Body(d, tier), Check: c04Check, Obs: c04Obs, Cases: c04Cases})
		dq := c04Desc{Set: set, NonCall: true, Pre: true}
		out = append(out, Scen{Desc: dq, Bound: 0, Horizon: 5000000, Body: c04Body(dq, tier), Check: c04Check, Obs: c04Obs, Cases: c04Cases})
	}
	return out
}

func c04Cases(x *vsched.Exec) int {
	if w := worldOf(x); w != nil {
		if st, ok := w.LC.(*c04State); ok {
			return st.calls
		}
	}
	return 0
}
