// Package vatomic provides drop-in replacements for the functions and types of sync/atomic. Inside a
// controlled execution every operation is a scheduling point and emits the happens-before edges of the
// Go memory model (an atomic operation that observes the effect of another is synchronised after it:
// stores release, loads acquire, read-modify-write operations do both); the operation itself is performed
// by the real package.
package vatomic

import (
	"sync/atomic"
	"unsafe"

	"vx/vsched"
)

type addrKey struct{ p unsafe.Pointer }

func op(p unsafe.Pointer, kind string, acquire, release bool) {
	if !vsched.Active() {
		return
	}
	k := addrKey{p}
	vsched.Yield(kind, "atomic", vsched.Always)
	if acquire {
		vsched.Acquire(k)
	}
	if release {
		vsched.Release(k)
	}
}

func load(p unsafe.Pointer)  { op(p, "atomic.load", true, false) }
func store(p unsafe.Pointer) { op(p, "atomic.store", false, true) }
func rmw(p unsafe.Pointer)   { op(p, "atomic.rmw", true, true) }

func LoadInt32(a *int32) int32       { load(unsafe.Pointer(a)); return atomic.LoadInt32(a) }
func LoadInt64(a *int64) int64       { load(unsafe.Pointer(a)); return atomic.LoadInt64(a) }
func LoadUint32(a *uint32) uint32    { load(unsafe.Pointer(a)); return atomic.LoadUint32(a) }
func LoadUint64(a *uint64) uint64    { load(unsafe.Pointer(a)); return atomic.LoadUint64(a) }
func LoadUintptr(a *uintptr) uintptr { load(unsafe.Pointer(a)); return atomic.LoadUintptr(a) }
func LoadPointer(a *unsafe.Pointer) unsafe.Pointer {
	load(unsafe.Pointer(a))
	return atomic.LoadPointer(a)
}

func StoreInt32(a *int32, v int32)       { store(unsafe.Pointer(a)); atomic.StoreInt32(a, v) }
func StoreInt64(a *int64, v int64)       { store(unsafe.Pointer(a)); atomic.StoreInt64(a, v) }
func StoreUint32(a *uint32, v uint32)    { store(unsafe.Pointer(a)); atomic.StoreUint32(a, v) }
func StoreUint64(a *uint64, v uint64)    { store(unsafe.Pointer(a)); atomic.StoreUint64(a, v) }
func StoreUintptr(a *uintptr, v uintptr) { store(unsafe.Pointer(a)); atomic.StoreUintptr(a, v) }
func StorePointer(a *unsafe.Pointer, v unsafe.Pointer) {
	store(unsafe.Pointer(a))
	atomic.StorePointer(a, v)
}

func AddInt32(a *int32, d int32) int32     { rmw(unsafe.Pointer(a)); return atomic.AddInt32(a, d) }
func AddInt64(a *int64, d int64) int64     { rmw(unsafe.Pointer(a)); return atomic.AddInt64(a, d) }
func AddUint32(a *uint32, d uint32) uint32 { rmw(unsafe.Pointer(a)); return atomic.AddUint32(a, d) }
func AddUint64(a *uint64, d uint64) uint64 { rmw(unsafe.Pointer(a)); return atomic.AddUint64(a, d) }
func AddUintptr(a *uintptr, d uintptr) uintptr {
	rmw(unsafe.Pointer(a))
	return atomic.AddUintptr(a, d)
}

func SwapInt32(a *int32, v int32) int32     { rmw(unsafe.Pointer(a)); return atomic.SwapInt32(a, v) }
func SwapInt64(a *int64, v int64) int64     { rmw(unsafe.Pointer(a)); return atomic.SwapInt64(a, v) }
func SwapUint32(a *uint32, v uint32) uint32 { rmw(unsafe.Pointer(a)); return atomic.SwapUint32(a, v) }
func SwapUint64(a *uint64, v uint64) uint64 { rmw(unsafe.Pointer(a)); return atomic.SwapUint64(a, v) }
func SwapUintptr(a *uintptr, v uintptr) uintptr {
	rmw(unsafe.Pointer(a))
	return atomic.SwapUintptr(a, v)
}
func SwapPointer(a *unsafe.Pointer, v unsafe.Pointer) unsafe.Pointer {
	rmw(unsafe.Pointer(a))
	return atomic.SwapPointer(a, v)
}

func CompareAndSwapInt32(a *int32, o, n int32) bool {
	rmw(unsafe.Pointer(a))
	return atomic.CompareAndSwapInt32(a, o, n)
}
func CompareAndSwapInt64(a *int64, o, n int64) bool {
	rmw(unsafe.Pointer(a))
	return atomic.CompareAndSwapInt64(a, o, n)
}
func CompareAndSwapUint32(a *uint32, o, n uint32) bool {
	rmw(unsafe.Pointer(a))
	return atomic.CompareAndSwapUint32(a, o, n)
}
func CompareAndSwapUint64(a *uint64, o, n uint64) bool {
	rmw(unsafe.Pointer(a))
	return atomic.CompareAndSwapUint64(a, o, n)
}
func CompareAndSwapUintptr(a *uintptr, o, n uintptr) bool {
	rmw(unsafe.Pointer(a))
	return atomic.CompareAndSwapUintptr(a, o, n)
}
func CompareAndSwapPointer(a *unsafe.Pointer, o, n unsafe.Pointer) bool {
	rmw(unsafe.Pointer(a))
	return atomic.CompareAndSwapPointer(a, o, n)
}

// ---- typed values ----

type Int32 struct{ v atomic.Int32 }

func (x *Int32) Load() int32        { load(unsafe.Pointer(x)); return x.v.Load() }
func (x *Int32) Store(v int32)      { store(unsafe.Pointer(x)); x.v.Store(v) }
func (x *Int32) Add(d int32) int32  { rmw(unsafe.Pointer(x)); return x.v.Add(d) }
func (x *Int32) Swap(v int32) int32 { rmw(unsafe.Pointer(x)); return x.v.Swap(v) }
func (x *Int32) CompareAndSwap(o, n int32) bool {
	rmw(unsafe.Pointer(x))
	return x.v.CompareAndSwap(o, n)
}

type Int64 struct{ v atomic.Int64 }

func (x *Int64) Load() int64        { load(unsafe.Pointer(x)); return x.v.Load() }
func (x *Int64) Store(v int64)      { store(unsafe.Pointer(x)); x.v.Store(v) }
func (x *Int64) Add(d int64) int64  { rmw(unsafe.Pointer(x)); return x.v.Add(d) }
func (x *Int64) Swap(v int64) int64 { rmw(unsafe.Pointer(x)); return x.v.Swap(v) }
func (x *Int64) CompareAndSwap(o, n int64) bool {
	rmw(unsafe.Pointer(x))
	return x.v.CompareAndSwap(o, n)
}

type Uint32 struct{ v atomic.Uint32 }

func (x *Uint32) Load() uint32         { load(unsafe.Pointer(x)); return x.v.Load() }
func (x *Uint32) Store(v uint32)       { store(unsafe.Pointer(x)); x.v.Store(v) }
func (x *Uint32) Add(d uint32) uint32  { rmw(unsafe.Pointer(x)); return x.v.Add(d) }
func (x *Uint32) Swap(v uint32) uint32 { rmw(unsafe.Pointer(x)); return x.v.Swap(v) }
func (x *Uint32) CompareAndSwap(o, n uint32) bool {
	rmw(unsafe.Pointer(x))
	return x.v.CompareAndSwap(o, n)
}

type Uint64 struct{ v atomic.Uint64 }

func (x *Uint64) Load() uint64         { load(unsafe.Pointer(x)); return x.v.Load() }
func (x *Uint64) Store(v uint64)       { store(unsafe.Pointer(x)); x.v.Store(v) }
func (x *Uint64) Add(d uint64) uint64  { rmw(unsafe.Pointer(x)); return x.v.Add(d) }
func (x *Uint64) Swap(v uint64) uint64 { rmw(unsafe.Pointer(x)); return x.v.Swap(v) }
func (x *Uint64) CompareAndSwap(o, n uint64) bool {
	rmw(unsafe.Pointer(x))
	return x.v.CompareAndSwap(o, n)
}

type Bool struct{ v atomic.Bool }

func (x *Bool) Load() bool       { load(unsafe.Pointer(x)); return x.v.Load() }
func (x *Bool) Store(v bool)     { store(unsafe.Pointer(x)); x.v.Store(v) }
func (x *Bool) Swap(v bool) bool { rmw(unsafe.Pointer(x)); return x.v.Swap(v) }
func (x *Bool) CompareAndSwap(o, n bool) bool {
	rmw(unsafe.Pointer(x))
	return x.v.CompareAndSwap(o, n)
}

type Value struct{ v atomic.Value }

func (x *Value) Load() interface{}              { load(unsafe.Pointer(x)); return x.v.Load() }
func (x *Value) Store(v interface{})            { store(unsafe.Pointer(x)); x.v.Store(v) }
func (x *Value) Swap(v interface{}) interface{} { rmw(unsafe.Pointer(x)); return x.v.Swap(v) }
func (x *Value) CompareAndSwap(o, n interface{}) bool {
	rmw(unsafe.Pointer(x))
	return x.v.CompareAndSwap(o, n)
}
