// Package vnet is the closed environment of the controlled executions: an
// in-memory net.Conn pair, a net.Listener fed by Dial calls and a timer event,
// and a context whose cancellation is an ordinary scheduled step. Every method
// is a scheduling point of vx/vsched with an enabledness predicate, so no real
// goroutine ever blocks outside the scheduler.
//
// Semantics are the documented net.Conn ones: a deadline in the past fails
// pending and future I/O with a net.Error whose Timeout() is true, the zero
// deadline clears it, Close fails pending I/O, a read returns the bytes of (a
// prefix of) the oldest unread segment - segment boundaries are exactly the
// peer's Write calls, which makes segmentation a property of the script and not
// of the schedule.
package vnet

import (
	"strings"
	"context"
	"errors"
	"fmt"
	"io"
	"net"
	"os"
	"syscall"
	"time"

	"vx/vsched"
)

type addr string

func (a addr) Network() string { return "vnet" }
func (a addr) String() string  { return string(a) }

// Conn is one end of an in-memory duplex connection.
type Conn struct {
	Name      string
	peer      *Conn
	inbox     [][]byte // unread segments
	inBytes   int
	closed    bool // Close called on this end
	peerGone  bool // peer closed in an orderly way: EOF once inbox is drained
	reset     bool // peer aborted: ECONNRESET, unread data discarded
	rdExpired bool
	wrExpired bool
	rdArmed   bool
	wrArmed   bool
	Cap       int  // capacity of the *peer's* inbox as seen by Write (0 = unbounded, <0 = full from the start: every Write blocks)
	Partial   bool // with Cap > 0: a Write delivers only as many bytes as there is room for and blocks for the rest (it returns the
	// count delivered so far when its deadline expires or the peer goes away), as a kernel socket buffer does
	Coalesce  bool // bytes arriving at this end while earlier bytes are still unread join the last unread segment (the network merged them)
	WriteErr  error
	// recording
	Log         [][]byte // every segment ever delivered into this end's inbox (what the peer wrote)
	Closes      int
	ReadCalls   int
	WriteCalls  int
	FailWriteAt int // when >0 the n-th and all later Write calls on this end fail with EPIPE (fault injection)
	dl          int // HB object for deadline/close edges
}

func (c *Conn) String() string { return c.Name }

// Pipe creates a connected pair.
func Pipe(name string) (*Conn, *Conn) {
	a := &Conn{Name: name + ".srv"}
	b := &Conn{Name: name + ".cli"}
	a.peer, b.peer = b, a
	return a, b
}

type timeoutError struct{}

func (timeoutError) Error() string     { return "i/o timeout" }
func (timeoutError) Timeout() bool     { return true }
func (timeoutError) Temporary() bool   { return true }
func (timeoutError) Is(err error) bool { return err == os.ErrDeadlineExceeded }

type tempError struct{}

func (tempError) Error() string   { return "too many open files" }
func (tempError) Timeout() bool   { return false }
func (tempError) Temporary() bool { return true }

func opErr(op string, err error) error {
	return &net.OpError{Op: op, Net: "vnet", Addr: addr("vnet"), Err: err}
}

type dlKey struct {
	c  *Conn
	rd bool
}

func (c *Conn) readable() bool {
	return c.closed || c.rdExpired || len(c.inbox) > 0 || c.reset || c.peerGone
}

func (c *Conn) Read(b []byte) (int, error) {
	c.ReadCalls++
	vsched.Yield("read", c, c.readable)
	vsched.Acquire(dlKey{c, true})
	switch {
	case c.closed:
		return 0, opErr("read", net.ErrClosed)
	case c.rdExpired:
		return 0, opErr("read", timeoutError{})
	case c.reset:
		return 0, opErr("read", syscall.ECONNRESET)
	case len(c.inbox) > 0:
		if len(b) == 0 {
			return 0, nil
		}
		vsched.Acquire(c)
		seg := c.inbox[0]
		n := copy(b, seg)
		if n == len(seg) {
			c.inbox = c.inbox[1:]
		} else {
			c.inbox[0] = seg[n:]
		}
		c.inBytes -= n
		vsched.EnvProgress()
		return n, nil
	default:
		return 0, io.EOF
	}
}

func (c *Conn) writable() bool {
	p := c.peer
	return c.closed || c.wrExpired || p.closed || c.Cap == 0 || (c.Cap > 0 && p.inBytes < c.Cap)
}

func (c *Conn) Write(b []byte) (int, error) {
	c.WriteCalls++
	if c.Partial {
		return c.writePartial(b)
	}
	vsched.Yield("write", c, c.writable)
	vsched.Acquire(dlKey{c, false})
	p := c.peer
	switch {
	case c.closed:
		return 0, opErr("write", net.ErrClosed)
	case c.wrExpired:
		return 0, opErr("write", timeoutError{})
	case p.closed || c.reset:
		return 0, opErr("write", syscall.EPIPE)
	}
	if c.FailWriteAt > 0 && c.WriteCalls >= c.FailWriteAt {
		return 0, opErr("write", syscall.EPIPE)
	}
	vsched.EnvProgress()
	vsched.ReadBytes(b, "net.Conn.Write reads its buffer")
	seg := append([]byte(nil), b...)
	if p.Coalesce && len(p.inbox) > 0 {
		p.inbox[len(p.inbox)-1] = append(p.inbox[len(p.inbox)-1], seg...)
		p.inBytes += len(seg)
		p.Log = append(p.Log, seg)
		vsched.Release(p)
		return len(b), nil
	}
	p.inbox = append(p.inbox, seg)
	p.inBytes += len(seg)
	p.Log = append(p.Log, seg)
	vsched.Release(p)
	return len(b), nil
}

func (c *Conn) writePartial(b []byte) (int, error) {
	n := 0
	for {
		vsched.Yield("write", c, c.writable)
		vsched.Acquire(dlKey{c, false})
		p := c.peer
		switch {
		case c.closed:
			return n, opErr("write", net.ErrClosed)
		case c.wrExpired:
			return n, opErr("write", timeoutError{})
		case p.closed || c.reset:
			return n, opErr("write", syscall.EPIPE)
		}
		room := len(b) - n
		if c.Cap > 0 && c.Cap-p.inBytes < room {
			room = c.Cap - p.inBytes
		}
		vsched.EnvProgress()
		seg := append([]byte(nil), b[n:n+room]...)
		p.inbox = append(p.inbox, seg)
		p.inBytes += len(seg)
		p.Log = append(p.Log, seg)
		vsched.Release(p)
		n += room
		if n == len(b) {
			return n, nil
		}
	}
}

// Close closes this end; the peer sees EOF after draining what was written.
func (c *Conn) Close() error {
	vsched.Yield("close", c, vsched.Always)
	c.Closes++
	if !c.closed {
		vsched.EnvProgress()
	}
	if c.closed {
		return opErr("close", net.ErrClosed)
	}
	c.closed = true
	vsched.Release(dlKey{c, true})
	vsched.Release(dlKey{c, false})
	if c.peer != nil {
		c.peer.peerGone = true
		vsched.Release(dlKey{c.peer, true})
	}
	return nil
}

// CloseWrite half-closes: the peer reads EOF after draining, this end can still receive.
func (c *Conn) CloseWrite() {
	vsched.EnvProgress()
	vsched.Yield("closewrite", c, vsched.Always)
	if c.peer != nil {
		c.peer.peerGone = true
		vsched.Release(dlKey{c.peer, true})
	}
}

// Abort is a peer-side abortive close (RST): the other end's reads fail with
// ECONNRESET and unread data is discarded; writes to it fail with EPIPE.
func (c *Conn) Abort() {
	vsched.EnvProgress()
	vsched.Yield("abort", c, vsched.Always)
	c.closed = true
	if c.peer != nil {
		c.peer.reset = true
		c.peer.inbox = nil
		c.peer.inBytes = 0
		vsched.Release(dlKey{c.peer, true})
		vsched.Release(dlKey{c.peer, false})
	}
}

// Peer returns the other end.
func (c *Conn) Peer() *Conn { return c.peer }

// IsClosed reports whether Close was called on this end.
func (c *Conn) IsClosed() bool { return c.closed }

// Received returns the concatenation of everything the peer wrote to this end.
func (c *Conn) Received() []byte {
	var out []byte
	for _, s := range c.Log {
		out = append(out, s...)
	}
	return out
}

// Pending returns the number of unread bytes.
func (c *Conn) Pending() int { return c.inBytes }

// Addresses as on a unix stream socket whose clients did not bind: the accepting side's connections all have the
// listener's address as local and the empty address as remote address (nothing in them tells two peers apart).
func (c *Conn) LocalAddr() net.Addr {
	if strings.HasSuffix(c.Name, ".srv") {
		return addr("@vnet")
	}
	return addr("")
}
func (c *Conn) RemoteAddr() net.Addr {
	if strings.HasSuffix(c.Name, ".srv") {
		return addr("")
	}
	return addr("@vnet")
}

var past = time.Unix(1000000000, 0) // any non-zero deadline before 2001 counts as "already expired"

func (c *Conn) SetDeadline(t time.Time) error {
	if err := c.SetReadDeadline(t); err != nil {
		return err
	}
	return c.SetWriteDeadline(t)
}

func (c *Conn) SetReadDeadline(t time.Time) error {
	vsched.Yield("setrd", c, vsched.Always)
	if c.closed {
		return opErr("set", net.ErrClosed)
	}
	switch {
	case t.IsZero():
		c.rdExpired, c.rdArmed = false, false
	case t.Before(past):
		c.rdExpired, c.rdArmed = true, false
		vsched.Release(dlKey{c, true})
	default:
		c.rdExpired, c.rdArmed = false, true
	}
	return nil
}

func (c *Conn) SetWriteDeadline(t time.Time) error {
	vsched.Yield("setwd", c, vsched.Always)
	if c.closed {
		return opErr("set", net.ErrClosed)
	}
	switch {
	case t.IsZero():
		c.wrExpired, c.wrArmed = false, false
	case t.Before(past):
		c.wrExpired, c.wrArmed = true, false
		vsched.Release(dlKey{c, false})
	default:
		c.wrExpired, c.wrArmed = false, true
	}
	return nil
}

// FireDeadline lets an armed (future) deadline expire: an environment event.
func (c *Conn) FireDeadline() bool {
	fired := false
	if c.rdArmed {
		c.rdArmed, c.rdExpired, fired = false, true, true
		vsched.Release(dlKey{c, true})
	}
	if c.wrArmed {
		c.wrArmed, c.wrExpired, fired = false, true, true
		vsched.Release(dlKey{c, false})
	}
	return fired
}

// RdExpired reports whether a read deadline in the past is currently in force.
func (c *Conn) RdExpired() bool { return c.rdExpired }
func (c *Conn) WrExpired() bool { return c.wrExpired }
func (c *Conn) Armed() bool     { return c.rdArmed || c.wrArmed }

// WrArmed reports whether a write deadline in the future is in force.
func (c *Conn) WrArmed() bool { return c.wrArmed }

// ---------------------------------------------------------------- listener

// Listener is a controlled net.Listener.
type Listener struct {
	Name     string
	queue    []*Conn
	closed   bool
	armed    bool
	expired  bool
	Accepted []*Conn // server ends handed out by Accept
	Closes   int
	Arms     int // SetDeadline calls with a future time
	Accepts  int // Accept calls begun
	LastArm  int // value of Accepts when the deadline was last armed
	Unarmed  int // Accept calls begun without a fresh SetDeadline since the previous Accept
	dials    int
	Waiting  int             // threads currently parked in Accept
	Hook     func(ev string) // called when an operation executes: accept-conn, accept-timeout, accept-closed, setdl, close
	Refused  int
	// TempFail Accept calls that find a connection waiting fail with a temporary (not timeout) error instead
	TempFail   int
	TempFailed int
}

func NewListener(name string) *Listener { return &Listener{Name: name} }

func (l *Listener) String() string { return l.Name }

func (l *Listener) hook(ev string) {
	if l.Hook != nil {
		l.Hook(ev)
	}
}

func (l *Listener) acceptable() bool { return l.closed || l.expired || len(l.queue) > 0 }

func (l *Listener) Accept() (net.Conn, error) {
	l.Accepts++
	if l.LastArm != l.Accepts {
		l.Unarmed++
	}
	l.Waiting++
	vsched.Yield("accept", l, l.acceptable)
	l.Waiting--
	vsched.Acquire(l)
	switch {
	case l.closed:
		l.hook("accept-closed")
		return nil, opErr("accept", net.ErrClosed)
	case l.expired:
		l.hook("accept-timeout")
		return nil, opErr("accept", timeoutError{})
	}
	if l.TempFail > 0 {
		// the environment's transient accept failure (EMFILE and the like) at the moment a client connects: the
		// connection stays queued
		l.TempFail--
		l.TempFailed++
		l.hook("accept-temperr")
		return nil, opErr("accept", tempError{})
	}
	l.hook("accept-conn")
	vsched.EnvProgress()
	c := l.queue[0]
	l.queue = l.queue[1:]
	l.Accepted = append(l.Accepted, c)
	return c, nil
}

// UnlinkField is the name under which the race monitor keeps net.UnixListener's unlink flag: SetUnlinkOnClose writes
// it, Close reads it, neither under a lock of the standard library.
const UnlinkField = "net.UnixListener.unlink"

// UnixListener is the controlled listener for a unix path address: it also answers what the library asks of
// *net.UnixListener (vsched.UnixListener).
type UnixListener struct {
	*Listener
	Unlink     bool
	UnlinkSets int
}

func (u *UnixListener) SetUnlinkOnClose(b bool) {
	vsched.Yield("lunlink", u.Listener, vsched.Always)
	vsched.AccessNoYield(u.Listener, UnlinkField, true, "(*net.UnixListener).SetUnlinkOnClose")
	u.Unlink = b
	u.UnlinkSets++
}

func (u *UnixListener) File() (*os.File, error) {
	return nil, opErr("file", fmt.Errorf("controlled listener has no descriptor"))
}

func (l *Listener) Close() error {
	vsched.Yield("lclose", l, vsched.Always)
	vsched.AccessNoYield(l, UnlinkField, false, "(*net.UnixListener).Close")
	l.hook("close")
	l.Closes++
	if l.closed {
		return opErr("close", net.ErrClosed)
	}
	l.closed = true
	vsched.EnvProgress()
	vsched.Release(l)
	for _, c := range l.queue {
		// connections that were never accepted are reset
		c.closed = true
		c.peer.reset = true
	}
	l.queue = nil
	return nil
}

func (l *Listener) Addr() net.Addr { return addr(l.Name) }

func (l *Listener) SetDeadline(t time.Time) error {
	vsched.Yield("lsetdl", l, vsched.Always)
	l.hook("setdl")
	if l.closed {
		return opErr("set", net.ErrClosed)
	}
	switch {
	case t.IsZero():
		l.armed, l.expired = false, false
	case t.Before(past):
		l.armed, l.expired = false, true
		vsched.Release(l)
	default:
		l.armed, l.expired = true, false
		l.Arms++
		l.LastArm = l.Accepts + 1
	}
	return nil
}

// Blocked reports whether some thread is parked in Accept with nothing to return: the service is
// genuinely waiting for a connection.
func (l *Listener) Blocked() bool { return l.Waiting > 0 && !l.acceptable() }

// IsClosed reports whether Close was called.
func (l *Listener) IsClosed() bool { return l.closed }

// Armed reports whether a future deadline is armed and has not yet expired.
func (l *Listener) Armed() bool { return l.armed && !l.expired && !l.closed }

// Expire lets the armed accept deadline pass (the timer event). The caller
// must have checked Armed (typically as the predicate of its scheduling point).
func (l *Listener) Expire() {
	vsched.EnvProgress()
	vsched.AdvanceClock(time.Hour)
	if l.armed && !l.closed {
		l.expired = true
		vsched.Release(l)
	}
}

// Queued returns the number of connections waiting to be accepted.
func (l *Listener) Queued() int { return len(l.queue) }

var ErrRefused = errors.New("connection refused")

// Dial is the client side: a scheduling point; it fails when the listener is closed.
func (l *Listener) Dial(name string) (*Conn, error) {
	vsched.Yield("dial", l, vsched.Always)
	if l.closed {
		l.Refused++
		return nil, opErr("dial", ErrRefused)
	}
	l.dials++
	if name == "" {
		name = fmt.Sprintf("c%d", l.dials)
	}
	srv, cli := Pipe(name)
	vsched.EnvProgress()
	l.queue = append(l.queue, srv)
	vsched.Release(l)
	return cli, nil
}

// ---------------------------------------------------------------- context

// Ctx is a context whose cancellation is a step of a controlled thread. It
// implements AfterFunc so that contexts derived from it by the standard library
// observe the cancellation synchronously and start no goroutine.
type Ctx struct {
	Name     string
	done     chan struct{}
	err      error
	funcs    []*afterFn
	deadline time.Time
	hasDL    bool
	values   map[interface{}]interface{}
}

type afterFn struct {
	f       func()
	stopped bool
	ran     bool
}

func NewCtx(name string) *Ctx { return &Ctx{Name: name, done: make(chan struct{})} }

// NewCtxDeadline is a context that reports a (far future) deadline; its expiry is the Expire step.
func NewCtxDeadline(name string) *Ctx {
	c := NewCtx(name)
	c.hasDL = true
	c.deadline = time.Date(2999, 1, 1, 0, 0, 0, 0, time.UTC)
	return c
}

func (c *Ctx) String() string                    { return c.Name }
func (c *Ctx) Deadline() (time.Time, bool)       { return c.deadline, c.hasDL }
func (c *Ctx) Done() <-chan struct{}             { return c.done }
func (c *Ctx) Err() error                        { return c.err }
func (c *Ctx) Value(key interface{}) interface{} { return nil }
func (c *Ctx) AfterFunc(f func()) (stop func() bool) {
	a := &afterFn{f: f}
	if c.err != nil {
		a.ran = true
		f()
		return func() bool { return false }
	}
	c.funcs = append(c.funcs, a)
	return func() bool {
		if a.ran || a.stopped {
			return false
		}
		a.stopped = true
		return true
	}
}

func (c *Ctx) finish(err error) {
	vsched.EnvProgress()
	if c.err != nil {
		return
	}
	c.err = err
	vsched.Release(vsched.CtxHB)
	close(c.done)
	for _, a := range c.funcs {
		if !a.stopped && !a.ran {
			a.ran = true
			a.f()
		}
	}
}

// Cancel cancels the context (a scheduling point).
func (c *Ctx) Cancel() {
	vsched.Yield("cancel", c, vsched.Always)
	c.finish(context.Canceled)
}

// timeoutCtx is what context.WithTimeout / WithDeadline of the code under test becomes inside a controlled
// execution: a child of the parent created by the standard library (so that the parent's cancellation reaches it
// synchronously) whose expiry is the step of a timer thread.
type timeoutCtx struct {
	context.Context
	expired bool
}

func (t *timeoutCtx) Err() error {
	if t.expired {
		return context.DeadlineExceeded
	}
	return t.Context.Err()
}

func (t *timeoutCtx) Deadline() (time.Time, bool) {
	return time.Date(2999, 1, 1, 0, 0, 0, 0, time.UTC), true
}

func (t *timeoutCtx) String() string { return "timeout-context" }

func init() {
	vsched.TimeoutCtxHook = func(parent context.Context) (context.Context, context.CancelFunc) {
		inner, cancel := context.WithCancel(parent)
		t := &timeoutCtx{Context: inner}
		vsched.GoDaemon("timer", func() {
			// enabled once the context has ended (the thread then just ends) or while the execution's timer
			// budget lasts (the thread then lets the timeout expire)
			vsched.Yield("timer", t, func() bool { return inner.Err() != nil || vsched.TimerMayFire() })
			if inner.Err() == nil && vsched.TimerFire() {
				t.expired = true
				vsched.Release(vsched.CtxHB)
				cancel()
			}
		})
		return t, func() {
			vsched.Release(vsched.CtxHB)
			cancel()
		}
	}
}

// Expire lets the context's deadline pass (a scheduling point).
func (c *Ctx) Expire() {
	vsched.Yield("ctx-expire", c, vsched.Always)
	c.finish(context.DeadlineExceeded)
}

// Cancelled reports whether the context is done.
func (c *Ctx) Cancelled() bool { return c.err != nil }
