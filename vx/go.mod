module vx

go 1.23

require github.com/varlink/go v0.0.0

replace github.com/varlink/go => /repo
