package main

// C02, real-transport stage: delivery of a complete frame when the connection ends right behind it. The
// service answers one call whose reply is larger than any kernel socket buffer, the client has already
// half-closed, so the service closes the connection as soon as its write has returned - while much of
// the reply is still in flight. Whatever the transport, what arrives is the one frame, whole, then EOF.
// The OS schedules these runs; the only clocks are watchdogs (inconclusive) and a pause that merely
// gives a mishandled close time to destroy the data it would destroy.

import (
	"context"
	"encoding/json"
	"fmt"
	"io"
	"net"
	"os"
	"strings"
	"time"

	"github.com/varlink/go/varlink"
)

type c02tInput struct {
	Transport string `json:"transport"` // unix | abstract | tcp
	Size      int    `json:"size"`      // bytes of description text in the reply
	Pace      string `json:"pace"`      // eager: the client reads at once; lazy: it reads only what is needed to let the service finish, the rest after the service has closed
}

type c02tBig struct{ text string }

func (b *c02tBig) VarlinkGetName() string        { return "t.big" }
func (b *c02tBig) VarlinkGetDescription() string { return b.text }
func (b *c02tBig) VarlinkDispatch(ctx context.Context, c varlink.Call, method string) error {
	return c.ReplyMethodNotFound(ctx, method)
}

func c02tDir() string { return fmt.Sprintf("c02t-%d", *flagShard) }

func c02tRun(in c02tInput) (msg, key string, infra bool) {
	text := "interface t.big\n# " + strings.Repeat("0123456789abcdef", in.Size/16) + "\nmethod M() -> ()\n"
	svc, _ := varlink.NewService("v", "p", "1", "u")
	svc.RegisterInterface(&c02tBig{text: text})
	tag := fmt.Sprintf("vx02-%d-%d", os.Getpid(), time.Now().UnixNano())
	var network, sockaddr, addr string
	switch in.Transport {
	case "unix":
		os.MkdirAll(c02tDir(), 0o755)
		sockaddr = c02tDir() + "/" + tag[len(tag)-12:] + ".sock"
		network, addr = "unix", "unix:"+sockaddr
	case "abstract":
		sockaddr = "@" + tag
		network, addr = "unix", "unix:@"+tag
	case "tcp":
		sockaddr = fmt.Sprintf("127.0.0.1:%d", freePort())
		network, addr = "tcp", "tcp:"+sockaddr
	}
	done := make(chan error, 1)
	go func() { done <- svc.Listen(context.Background(), addr, 0) }()
	for t0 := time.Now(); ; time.Sleep(50 * time.Microsecond) {
		if l, _ := svc.GetListener(); l != nil {
			break
		}
		select {
		case e := <-done:
			return "service did not start: " + fmt.Sprint(e), "infra", true
		default:
		}
		if time.Since(t0) > 30*time.Second {
			return "service did not start within 30 s", "infra", true
		}
	}
	defer func() {
		svc.Shutdown()
		select {
		case <-done:
		case <-time.After(30 * time.Second):
		}
	}()
	c, err := net.Dial(network, sockaddr)
	if err != nil {
		return "dial: " + err.Error(), "infra", true
	}
	defer c.Close()
	if _, err := c.Write([]byte(`{"method":"org.varlink.service.GetInterfaceDescription","parameters":{"interface":"t.big"}}` + "\x00")); err != nil {
		return "write: " + err.Error(), "infra", true
	}
	switch cc := c.(type) {
	case *net.TCPConn:
		cc.CloseWrite()
	case *net.UnixConn:
		cc.CloseWrite()
	}
	var got []byte
	buf := make([]byte, 64<<10)
	watchdog := time.Now().Add(90 * time.Second)
	var rerr error
	if in.Pace == "lazy" {
		// read only while the service is still busy with this connection
		seen := false
		for rerr == nil {
			_, _, cnt, _, _ := svc.VerifPeek()
			if cnt == varlink.VerifUnknown {
				break // the tree keeps no such counter: fall back to reading at once
			}
			if cnt > 0 {
				seen = true
			}
			if seen && cnt == 0 {
				break // the service has closed the connection; the rest of the reply is in flight
			}
			if time.Now().After(watchdog) {
				return "watchdog (service busy)", "infra", true
			}
			c.SetReadDeadline(time.Now().Add(5 * time.Millisecond))
			var n int
			n, rerr = c.Read(buf)
			got = append(got, buf[:n]...)
			if ne, ok := rerr.(net.Error); ok && ne.Timeout() {
				rerr = nil
			}
		}
		time.Sleep(200 * time.Millisecond) // detection aid: an abortive close needs a moment to reach this end
	}
	c.SetReadDeadline(watchdog)
	for rerr == nil {
		var n int
		n, rerr = c.Read(buf)
		got = append(got, buf[:n]...)
	}
	if ne, ok := rerr.(net.Error); ok && ne.Timeout() {
		return "watchdog (reading)", "infra", true
	}
	k := fmt.Sprintf("transport=%s pace=%s", in.Transport, in.Pace)
	if rerr != io.EOF {
		return fmt.Sprintf("%s: after %d bytes of a %d-byte reply the stream ended with %v instead of EOF: the frame the service wrote (its Write reported success) never arrived whole", in.Transport, len(got), len(text), rerr), "symptom=reply-cut-at-close " + k, false
	}
	if len(got) == 0 || got[len(got)-1] != 0 || strings.IndexByte(string(got), 0) != len(got)-1 {
		return fmt.Sprintf("%s: %d bytes arrived before EOF and they are not one NUL-terminated frame (tail %q)", in.Transport, len(got), short(string(got[max(0, len(got)-30):]))), "symptom=reply-cut-at-close " + k, false
	}
	var m struct {
		Parameters struct {
			Description string `json:"description"`
		} `json:"parameters"`
	}
	if err := json.Unmarshal(got[:len(got)-1], &m); err != nil || m.Parameters.Description != text {
		return fmt.Sprintf("%s: the frame is not the reply that was sent (decode error %v, %d of %d description bytes)", in.Transport, err, len(m.Parameters.Description), len(text)), "symptom=reply-changed " + k, false
	}
	return "", "", false
}

func runC02T(tier string, r *Result) {
	sizes := []int{64, 70000, 1 << 20, 6 << 20}
	if tier != "quick" {
		sizes = append(sizes, 17<<20, 40<<20)
	}
	var inputs []c02tInput
	for _, tr := range []string{"unix", "abstract", "tcp"} {
		for _, sz := range sizes {
			for _, pace := range []string{"eager", "lazy"} {
				inputs = append(inputs, c02tInput{tr, sz, pace})
			}
		}
	}
	defer os.RemoveAll(c02tDir())
	for i, in := range inputs {
		if !r.mine(i) || r.expired() {
			continue
		}
		r.note(in)
		msg, key, infra := c02tRun(in)
		r.Executions++
		r.Nodes++
		r.Steps += in.Size
		if infra {
			r.Extra["inconclusive_environment"]++
			r.outcome("inconclusive " + in.Transport + ": " + msg)
			continue
		}
		if msg != "" {
			r.outcome("violation " + key)
			r.violation(key, msg, in)
			continue
		}
		r.outcome("whole frame then EOF: " + in.Transport + " " + in.Pace)
	}
	r.Extra["real_transport_close_cases"] = len(inputs)
}

func init() {
	props["C02"] = propFn{run: runC02T, replay: func(raw json.RawMessage) (string, string) {
		var in c02tInput
		json.Unmarshal(raw, &in)
		for i := 0; i < 3; i++ {
			msg, key, infra := c02tRun(in)
			if !infra {
				return msg, key
			}
		}
		return "", ""
	}, rule: "second harness (real transports): for {unix socket, abstract socket, TCP loopback} x reply size {64 B .. 6 MiB; thorough .. 40 MiB} x {client reads at once, client reads the tail only after the service has closed} a raw client sends one call, half-closes, and collects everything up to EOF; the bytes must be exactly the one reply frame; states = cases executed",
		assume: []string{"OS-scheduled; the 200 ms pause is a detection aid, the 90 s watchdog classifies a run as inconclusive"}}
}
