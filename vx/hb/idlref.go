package main

import (
	"fmt"
	"regexp"
	"strings"

	"github.com/varlink/go/varlink/idl"
)

// ---------------------------------------------------------------------------------------------
// Reference model of the interface-definition language: an independent tree type, a canonical
// printer, a layout-parameterised renderer (strict grammar S), a liberal recogniser (grammar L)
// and a whitespace/comment stripper. None of this shares code with varlink/idl.

type RType struct {
	Kind   string // bool int float string object array map maybe struct enum alias
	Elem   *RType
	Alias  string
	Fields []RField
}

type RField struct {
	Name string
	Type *RType // nil for enum members
}

type RMember struct {
	Kind string // type method error
	Name string
	Type *RType // alias body / error type (may be nil)
	In   *RType
	Out  *RType
	Doc  []string // comment lines directly above (only used by doc-mode rendering)
}

type RIDL struct {
	Name    string
	Doc     []string
	Members []RMember
}

func T(kind string) *RType       { return &RType{Kind: kind} }
func TAlias(n string) *RType     { return &RType{Kind: "alias", Alias: n} }
func TArr(e *RType) *RType       { return &RType{Kind: "array", Elem: e} }
func TMap(e *RType) *RType       { return &RType{Kind: "map", Elem: e} }
func TMaybe(e *RType) *RType     { return &RType{Kind: "maybe", Elem: e} }
func TStruct(f ...RField) *RType { return &RType{Kind: "struct", Fields: f} }
func TEnum(names ...string) *RType {
	t := &RType{Kind: "enum"}
	for _, n := range names {
		t.Fields = append(t.Fields, RField{Name: n})
	}
	return t
}
func F(n string, t *RType) RField { return RField{Name: n, Type: t} }

// ---- canonical printer (used for the C06 round trip) from the parser's own tree

var kindNames = map[idl.TypeKind]string{
	idl.TypeBool: "bool", idl.TypeInt: "int", idl.TypeFloat: "float", idl.TypeString: "string", idl.TypeObject: "object",
}

// printIDLType prints a parser type; ok=false if the node is structurally impossible to print
// (e.g. an enum member carrying a type): that is itself a tree-invariant violation.
func printIDLType(t *idl.Type, sb *strings.Builder) string {
	if t == nil {
		return "nil type node"
	}
	switch t.Kind {
	case idl.TypeBool, idl.TypeInt, idl.TypeFloat, idl.TypeString, idl.TypeObject:
		sb.WriteString(kindNames[t.Kind])
	case idl.TypeArray:
		sb.WriteString("[]")
		return printIDLType(t.ElementType, sb)
	case idl.TypeMap:
		sb.WriteString("[string]")
		return printIDLType(t.ElementType, sb)
	case idl.TypeMaybe:
		sb.WriteString("?")
		if t.ElementType != nil && t.ElementType.Kind == idl.TypeMaybe {
			return "an optional directly wraps an optional"
		}
		return printIDLType(t.ElementType, sb)
	case idl.TypeAlias:
		if t.Alias == "" {
			return "alias node without a name"
		}
		sb.WriteString(t.Alias)
	case idl.TypeStruct:
		sb.WriteString("(")
		seen := map[string]bool{}
		for i, f := range t.Fields {
			if i > 0 {
				sb.WriteString(", ")
			}
			if f.Type == nil {
				return fmt.Sprintf("struct field %q has no type (mixed field/enum list)", f.Name)
			}
			if seen[f.Name] {
				// duplicate field names are outside the property's list; not judged
			}
			seen[f.Name] = true
			sb.WriteString(f.Name + ": ")
			if p := printIDLType(f.Type, sb); p != "" {
				return p
			}
		}
		sb.WriteString(")")
	case idl.TypeEnum:
		if len(t.Fields) == 0 {
			return "enum without members"
		}
		sb.WriteString("(")
		for i, f := range t.Fields {
			if i > 0 {
				sb.WriteString(", ")
			}
			if f.Type != nil {
				return fmt.Sprintf("enum member %q carries a type (mixed field/enum list)", f.Name)
			}
			sb.WriteString(f.Name)
		}
		sb.WriteString(")")
	default:
		return fmt.Sprintf("unknown type kind %d", t.Kind)
	}
	return ""
}

// printIDL prints the parser's tree in canonical layout, following Members (source order).
func printIDL(i *idl.IDL) (string, string) {
	var sb strings.Builder
	sb.WriteString("interface " + i.Name + "\n")
	for _, m := range i.Members {
		var problem string
		switch x := m.(type) {
		case *idl.Alias:
			sb.WriteString("type " + x.Name + " ")
			problem = printIDLType(x.Type, &sb)
		case *idl.Method:
			sb.WriteString("method " + x.Name + " ")
			problem = printIDLType(x.In, &sb)
			sb.WriteString(" -> ")
			if problem == "" {
				problem = printIDLType(x.Out, &sb)
			}
		case *idl.Error:
			sb.WriteString("error " + x.Name)
			if x.Type != nil {
				sb.WriteString(" ")
				problem = printIDLType(x.Type, &sb)
			}
		default:
			problem = fmt.Sprintf("member of unknown Go type %T", m)
		}
		if problem != "" {
			return sb.String(), problem
		}
		sb.WriteString("\n")
	}
	return sb.String(), ""
}

// strip removes comments and whitespace with its own scanner.
func strip(s string) string {
	var sb strings.Builder
	inComment := false
	for i := 0; i < len(s); i++ {
		c := s[i]
		if inComment {
			if c == '\n' {
				inComment = false
			}
			continue
		}
		switch c {
		case '#':
			inComment = true
		case ' ', '\t', '\r', '\n':
		default:
			sb.WriteByte(c)
		}
	}
	return sb.String()
}

// ---- structural comparison: generated tree vs. parser tree

func cmpType(path string, want *RType, got *idl.Type) string {
	if want == nil {
		if got != nil {
			return path + ": unexpected type node"
		}
		return ""
	}
	if got == nil {
		return path + ": type node missing"
	}
	kinds := map[string]idl.TypeKind{"bool": idl.TypeBool, "int": idl.TypeInt, "float": idl.TypeFloat, "string": idl.TypeString, "object": idl.TypeObject,
		"array": idl.TypeArray, "map": idl.TypeMap, "maybe": idl.TypeMaybe, "struct": idl.TypeStruct, "enum": idl.TypeEnum, "alias": idl.TypeAlias}
	if got.Kind != kinds[want.Kind] {
		return fmt.Sprintf("%s: kind %d, the text says %s", path, got.Kind, want.Kind)
	}
	switch want.Kind {
	case "array", "map", "maybe":
		return cmpType(path+"/"+want.Kind, want.Elem, got.ElementType)
	case "alias":
		if got.Alias != want.Alias {
			return fmt.Sprintf("%s: named reference %q, the text says %q", path, got.Alias, want.Alias)
		}
	case "struct", "enum":
		if len(got.Fields) != len(want.Fields) {
			return fmt.Sprintf("%s: %d fields, the text has %d", path, len(got.Fields), len(want.Fields))
		}
		for i, f := range want.Fields {
			if got.Fields[i].Name != f.Name {
				return fmt.Sprintf("%s: field %d is %q, the text says %q", path, i, got.Fields[i].Name, f.Name)
			}
			if p := cmpType(path+"."+f.Name, f.Type, got.Fields[i].Type); p != "" {
				return p
			}
		}
	}
	return ""
}

// cmpIDL compares the parser's result with the generated tree (docs only when checkDocs).
// docTrail, when set, makes the documentation comparison tolerate the trailing comment "# <docTrail>" of the line
// above (and, below the interface line, the interface's still pending block) in front of a member's block. It is
// not set by any family: since fix 2 of C05 (trailing comments document nothing) the comparison is exact.
var docTrail string

func docOK(got string, want []string, pendingAbove []string) bool {
	w := strings.Join(want, "\n")
	if got == w {
		return true
	}
	if docTrail == "" {
		return false
	}
	// the trailing comment of the line above (and, below the interface line, the interface's own block, which
	// nothing has ended yet) may or may not be taken as part of the block
	lines := strings.Split(got, "\n")
	if len(pendingAbove) > 0 && len(lines) >= len(pendingAbove) && strings.Join(lines[:len(pendingAbove)], "\n") == strings.Join(pendingAbove, "\n") {
		lines = lines[len(pendingAbove):]
	}
	if len(lines) > 0 && lines[0] == docTrail {
		lines = lines[1:]
	}
	return strings.Join(lines, "\n") == w
}

// pendingAbove: the interface's own block is still pending when the first member starts on the line below it
func pendingAbove(d *RIDL, i int) []string {
	if i == 0 {
		return d.Doc
	}
	return nil
}

func cmpIDL(want *RIDL, got *idl.IDL, text string, checkDocs bool) string {
	if got.Name != want.Name {
		return fmt.Sprintf("interface name %q, the text says %q", got.Name, want.Name)
	}
	if got.Description != text {
		return "Description is not the input text verbatim"
	}
	if len(got.Members) != len(want.Members) {
		return fmt.Sprintf("%d members, the text has %d", len(got.Members), len(want.Members))
	}
	na, nm, ne := 0, 0, 0
	for i, w := range want.Members {
		switch g := got.Members[i].(type) {
		case *idl.Alias:
			if w.Kind != "type" || g.Name != w.Name {
				return fmt.Sprintf("member %d is type %q, the text says %s %q", i, g.Name, w.Kind, w.Name)
			}
			if na >= len(got.Aliases) || got.Aliases[na] != g {
				return fmt.Sprintf("Aliases[%d] is not member %d (lists out of step with source order)", na, i)
			}
			na++
			if p := cmpType("type "+w.Name, w.Type, g.Type); p != "" {
				return p
			}
			if checkDocs && !docOK(g.Doc, w.Doc, pendingAbove(want, i)) {
				return fmt.Sprintf("documentation of type %s is %q, the comment block above it says %q", w.Name, g.Doc, strings.Join(w.Doc, "\n"))
			}
		case *idl.Method:
			if w.Kind != "method" || g.Name != w.Name {
				return fmt.Sprintf("member %d is method %q, the text says %s %q", i, g.Name, w.Kind, w.Name)
			}
			if nm >= len(got.Methods) || got.Methods[nm] != g {
				return fmt.Sprintf("Methods[%d] is not member %d (lists out of step with source order)", nm, i)
			}
			nm++
			if p := cmpType("method "+w.Name+" in", w.In, g.In); p != "" {
				return p
			}
			if p := cmpType("method "+w.Name+" out", w.Out, g.Out); p != "" {
				return p
			}
			if checkDocs && !docOK(g.Doc, w.Doc, pendingAbove(want, i)) {
				return fmt.Sprintf("documentation of method %s is %q, the comment block above it says %q", w.Name, g.Doc, strings.Join(w.Doc, "\n"))
			}
		case *idl.Error:
			if w.Kind != "error" || g.Name != w.Name {
				return fmt.Sprintf("member %d is error %q, the text says %s %q", i, g.Name, w.Kind, w.Name)
			}
			if ne >= len(got.Errors) || got.Errors[ne] != g {
				return fmt.Sprintf("Errors[%d] is not member %d (lists out of step with source order)", ne, i)
			}
			ne++
			if p := cmpType("error "+w.Name, w.Type, g.Type); p != "" {
				return p
			}
			if checkDocs && !docOK(g.Doc, w.Doc, pendingAbove(want, i)) {
				return fmt.Sprintf("documentation of error %s is %q, the comment block above it says %q", w.Name, g.Doc, strings.Join(w.Doc, "\n"))
			}
		default:
			return fmt.Sprintf("member %d has Go type %T", i, g)
		}
	}
	if na != len(got.Aliases) || nm != len(got.Methods) || ne != len(got.Errors) {
		return fmt.Sprintf("Aliases/Methods/Errors hold %d/%d/%d entries, Members has %d/%d/%d", len(got.Aliases), len(got.Methods), len(got.Errors), na, nm, ne)
	}
	if checkDocs && got.Doc != strings.Join(want.Doc, "\n") {
		return fmt.Sprintf("interface documentation is %q, the comment block above says %q", got.Doc, strings.Join(want.Doc, "\n"))
	}
	return ""
}

// ---- renderer for the strict grammar S

// A rendering is a sequence of pieces: tokens and gaps. Gap classes:
//
//	'g' any gap, may be empty            'w' gap with at least one whitespace character
//	'm' gap between members: contains a newline (members sit on their own lines)
//	's' spaces only (between an error's name and its type), may be empty
//
// The layout assigns a filler to every gap; the default fillers give the canonical layout.
type piece struct {
	tok   string
	class byte // 0 for tokens
	def   string
}

func isWordByte(c byte) bool {
	return c == '_' || (c >= '0' && c <= '9') || (c >= 'a' && c <= 'z') || (c >= 'A' && c <= 'Z')
}

type renderer struct{ ps []piece }

func (r *renderer) tok(s string)               { r.ps = append(r.ps, piece{tok: s}) }
func (r *renderer) gap(class byte, def string) { r.ps = append(r.ps, piece{class: class, def: def}) }

func (r *renderer) typ(t *RType) {
	switch t.Kind {
	case "bool", "int", "float", "string", "object":
		r.tok(t.Kind)
	case "alias":
		r.tok(t.Alias)
	case "array":
		r.tok("[]")
		r.typ(t.Elem)
	case "map":
		r.tok("[string]")
		r.typ(t.Elem)
	case "maybe":
		r.tok("?")
		r.typ(t.Elem)
	case "struct":
		if len(t.Fields) == 0 {
			r.tok("()")
			return
		}
		r.tok("(")
		for i, f := range t.Fields {
			if i > 0 {
				r.gap('g', "")
				r.tok(",")
				r.gap('g', " ")
			} else {
				r.gap('g', "")
			}
			r.tok(f.Name)
			r.gap('g', "")
			r.tok(":")
			r.gap('g', " ")
			r.typ(f.Type)
		}
		r.gap('g', "")
		r.tok(")")
	case "enum":
		r.tok("(")
		for i, f := range t.Fields {
			if i > 0 {
				r.gap('g', "")
				r.tok(",")
				r.gap('g', " ")
			} else {
				r.gap('g', "")
			}
			r.tok(f.Name)
		}
		r.gap('g', "")
		r.tok(")")
	}
}

func pieces(d *RIDL) []piece {
	r := &renderer{}
	r.gap('g', "")
	r.tok("interface")
	r.gap('w', " ")
	r.tok(d.Name)
	for _, m := range d.Members {
		r.gap('m', "\n")
		r.tok(m.Kind)
		r.gap('w', " ")
		r.tok(m.Name)
		switch m.Kind {
		case "type":
			r.gap('g', " ")
			r.typ(m.Type)
		case "method":
			r.gap('g', "")
			r.typ(m.In)
			r.gap('g', " ")
			r.tok("->")
			r.gap('g', " ")
			r.typ(m.Out)
		case "error":
			if m.Type != nil {
				r.gap('s', " ")
				r.typ(m.Type)
			}
		}
	}
	r.gap('g', "\n")
	return r.ps
}

var gapFillers = []string{"", " ", "\t", "\r\n", "\n", "\n\n", " # c\n", "#\n", "#c\n", "# c\n# d\n", "  \t ", "# :) ( [\n"}

// fillerOK decides whether filler f may stand at a gap of the given class between prev and next token.
func fillerOK(class byte, f string, prev, next string) bool {
	hasWS := strings.ContainsAny(f, " \t\r\n")
	switch class {
	case 'w':
		if !hasWS {
			return false
		}
	case 'm':
		if !strings.Contains(f, "\n") {
			return false
		}
	case 's':
		if strings.Trim(f, " ") != "" {
			return false
		}
	}
	if f == "" && prev != "" && next != "" && isWordByte(prev[len(prev)-1]) && isWordByte(next[0]) {
		return false // two words would merge
	}
	if class == 's' && f == "" && prev != "" && next != "" && isWordByte(prev[len(prev)-1]) && !isWordByte(next[0]) {
		return true
	}
	// a comment filler must end the line before the next token starts (all comment fillers end in \n)
	return true
}

// render produces the text for a layout given as map gapIndex -> filler (others default).
func render(ps []piece, layout map[int]string) string {
	var sb strings.Builder
	gi := 0
	for _, p := range ps {
		if p.class == 0 {
			sb.WriteString(p.tok)
			continue
		}
		if f, ok := layout[gi]; ok {
			sb.WriteString(f)
		} else {
			sb.WriteString(p.def)
		}
		gi++
	}
	return sb.String()
}

// gapsOf lists (index, class, prevTok, nextTok) of every gap.
type gapInfo struct {
	class      byte
	prev, next string
	def        string
}

func gapsOf(ps []piece) []gapInfo {
	var out []gapInfo
	for i, p := range ps {
		if p.class == 0 {
			continue
		}
		g := gapInfo{class: p.class, def: p.def}
		for j := i - 1; j >= 0; j-- {
			if ps[j].class == 0 {
				g.prev = ps[j].tok
				break
			}
		}
		for j := i + 1; j < len(ps); j++ {
			if ps[j].class == 0 {
				g.next = ps[j].tok
				break
			}
		}
		out = append(out, g)
	}
	return out
}

// renderDocs renders with comment blocks above the interface keyword and above members.
// blank selects what separates a block from the preceding line.
// inner: when not empty, every gap inside a member (behind its keyword, name, brackets, ...) that admits it is
// filled with it - the member then spreads over several lines, its documentation block still directly above.
func renderDocs(d *RIDL, indent string, crlf bool, inner string) string {
	return renderDocsT(d, indent, crlf, inner, false, "")
}

// renderDocsT: tight = no blank line between members; trail = a trailing comment on the interface line and on the
// last line of every member.
func renderDocsT(d *RIDL, indent string, crlf bool, inner string, tight bool, trail string) string {
	nl := "\n"
	if crlf {
		nl = "\r\n"
	}
	var sb strings.Builder
	block := func(doc []string) {
		for _, l := range doc {
			if l == "" {
				sb.WriteString(indent + "#" + nl)
			} else {
				sb.WriteString(indent + "# " + l + nl)
			}
		}
	}
	tr := ""
	if trail != "" {
		tr = " # " + trail
	}
	block(d.Doc)
	sb.WriteString("interface " + d.Name + tr + nl)
	for _, m := range d.Members {
		if !tight {
			sb.WriteString(nl)
		}
		block(m.Doc)
		one := RIDL{Name: "x.y", Members: []RMember{m}}
		ps := pieces(&one)
		lay := map[int]string{}
		if inner != "" {
			gs := gapsOf(ps)
			for gi, g := range gs {
				if g.prev == "" || g.prev == "interface" || g.prev == "x.y" || gi == len(gs)-1 {
					continue
				}
				if fillerOK(g.class, inner, g.prev, g.next) {
					lay[gi] = inner
				}
			}
		}
		txt := render(ps, lay)
		txt = txt[strings.Index(txt, "\n")+1:]
		sb.WriteString(indent + strings.TrimSuffix(txt, "\n") + tr + nl)
	}
	return sb.String()
}

// ---- liberal recogniser L: everything it rejects must be rejected by the parser

var (
	ifaceRx  = regexp.MustCompile(`^[A-Za-z]+(\.[A-Za-z0-9]+(-[A-Za-z0-9]+)*)+$`)
	xnRx     = regexp.MustCompile(`^xn--[a-z0-9]+(\.[a-z0-9]+(-[a-z0-9]+)*)+$`)
	builtins = map[string]bool{"bool": true, "int": true, "float": true, "string": true, "object": true}
)

type lrec struct {
	s string
	i int
}

func (p *lrec) gap() {
	for p.i < len(p.s) {
		c := p.s[p.i]
		if c == ' ' || c == '\t' || c == '\r' || c == '\n' {
			p.i++
		} else if c == '#' {
			for p.i < len(p.s) && p.s[p.i] != '\n' {
				p.i++
			}
		} else {
			return
		}
	}
}

func (p *lrec) run(ok func(byte) bool) string {
	st := p.i
	for p.i < len(p.s) && ok(p.s[p.i]) {
		p.i++
	}
	return p.s[st:p.i]
}

func isLower(c byte) bool { return c >= 'a' && c <= 'z' }
func isAlnum(c byte) bool {
	return (c >= '0' && c <= '9') || (c >= 'a' && c <= 'z') || (c >= 'A' && c <= 'Z')
}

// typeL accepts a type under the liberal reading (gaps between any two tokens).
func (p *lrec) typeL(depth int) bool {
	if depth > 100000 {
		return false
	}
	p.gap()
	if p.i >= len(p.s) {
		return false
	}
	switch c := p.s[p.i]; {
	case c == '?':
		p.i++
		p.gap()
		if p.i < len(p.s) && p.s[p.i] == '?' {
			return false
		}
		return p.typeL(depth + 1)
	case c == '[':
		p.i++
		p.gap()
		w := p.run(isAlnum)
		if w != "" && w != "string" {
			return false
		}
		p.gap()
		if p.i >= len(p.s) || p.s[p.i] != ']' {
			return false
		}
		p.i++
		return p.typeL(depth + 1)
	case c == '(':
		p.i++
		p.gap()
		if p.i < len(p.s) && p.s[p.i] == ')' {
			p.i++
			return true
		}
		typed, bare := 0, 0
		for {
			p.gap()
			if p.i >= len(p.s) || !isLower(p.s[p.i]) {
				return false
			}
			p.run(func(c byte) bool { return isAlnum(c) || c == '_' })
			p.gap()
			if p.i < len(p.s) && p.s[p.i] == ':' {
				p.i++
				typed++
				if !p.typeL(depth + 1) {
					return false
				}
			} else {
				bare++
			}
			p.gap()
			if p.i < len(p.s) && p.s[p.i] == ',' {
				p.i++
				continue
			}
			if p.i < len(p.s) && p.s[p.i] == ')' {
				p.i++
				return typed == 0 || bare == 0
			}
			return false
		}
	default:
		w := p.run(isAlnum)
		return w != ""
	}
}

// liberalOK reports whether the text is well-formed under the most liberal reading of the grammar.
func liberalOK(s string) bool {
	p := &lrec{s: s}
	p.gap()
	if p.run(isLower) != "interface" {
		return false
	}
	p.gap()
	st := p.i
	name := p.run(func(c byte) bool { return isAlnum(c) || c == '.' || c == '-' })
	// the name is the longest prefix of the name-like run that is a well-formed name (as every tokeniser takes
	// it), and it is at most 255 bytes long: a reader that stops earlier reinterprets the rest of the name as
	// member text
	for n := len(name); n > 0; n-- {
		pre := name[:n]
		if ifaceRx.MatchString(pre) || xnRx.MatchString(pre) {
			return len(pre) <= 255 && membersL(s, st+n, nil, 0)
		}
	}
	return false
}

// membersL parses the member list from offset i; names are the member names seen so far.
func membersL(s string, i int, names []string, methods int) bool {
	p := &lrec{s: s, i: i}
	for {
		p.gap()
		if p.i >= len(p.s) {
			return methods > 0
		}
		kw := p.run(isLower)
		switch kw {
		case "type", "method", "error":
		default:
			return false
		}
		p.gap()
		n := p.run(isAlnum)
		if n == "" {
			return false
		}
		for _, o := range names {
			if o == n {
				return false
			}
		}
		names = append(names[:len(names):len(names)], n)
		switch kw {
		case "type":
			if !p.typeL(0) {
				return false
			}
		case "method":
			methods++
			if !p.typeL(0) {
				return false
			}
			p.gap()
			if !strings.HasPrefix(p.s[p.i:], "->") {
				return false
			}
			p.i += 2
			if !p.typeL(0) {
				return false
			}
		case "error":
			// the type is optional: either the member list continues here, or a type follows
			if membersL(s, p.i, names, methods) {
				return true
			}
			if !p.typeL(0) {
				return false
			}
		}
	}
}
