package main

// C18, real-runtime stage: the object Upgrade returns is the upgraded stream. A client that keeps only that
// object (the usual shape of a helper that hands a session to another goroutine) still receives every byte
// the service sends, whatever the Go runtime does with the Connection value it no longer references
// (garbage collection, finalizers). Real unix socket and TCP loopback; the collector is run explicitly
// between reads.

import (
	"context"
	"encoding/json"
	"fmt"
	"net"
	"os"
	"runtime"
	"strings"
	"time"

	"github.com/varlink/go/varlink"
)

type c18tInput struct {
	Transport string `json:"transport"` // unix | tcp
	Ticks     int    `json:"ticks"`     // lines the service streams after the upgrade reply
	KeepConn  bool   `json:"keep_conn"` // control: the client keeps its Connection referenced
	BgRead    bool   `json:"bg_read,omitempty"` // the client waits before receiving the upgrade reply (reply and first payload arrive together) and reads the stream under context.Background()
}

type c18tStream struct{ ticks int }

func (s *c18tStream) VarlinkGetName() string        { return "t.up" }
func (s *c18tStream) VarlinkGetDescription() string { return "interface t.up\nmethod Stream() -> ()\n" }
func (s *c18tStream) VarlinkDispatch(ctx context.Context, c varlink.Call, method string) error {
	if method != "Stream" || !c.WantsUpgrade() {
		return c.ReplyMethodNotFound(ctx, method)
	}
	if err := c.Reply(ctx, map[string]int{"ok": 1}); err != nil {
		return err
	}
	for i := 0; i < s.ticks; i++ {
		if _, err := c.Conn.Write(ctx, []byte(fmt.Sprintf("tick %03d\n", i))); err != nil {
			return err
		}
		time.Sleep(15 * time.Millisecond)
	}
	return fmt.Errorf("stream over") // ends the connection: the client reads EOF behind the last line
}

// c18tOpen dials, upgrades and returns only the stream (and, for the control, the Connection).
func c18tOpen(ctx context.Context, addr string, keep bool, wait time.Duration) (varlink.ReadWriterContext, *varlink.Connection, error) {
	conn, err := varlink.NewConnection(ctx, addr)
	if err != nil {
		return nil, nil, err
	}
	recv, err := conn.Upgrade(ctx, "t.up.Stream", nil)
	if err != nil {
		return nil, nil, err
	}
	time.Sleep(wait)
	var out json.RawMessage
	_, rw, err := recv(ctx, &out)
	if err != nil {
		return nil, nil, err
	}
	if keep {
		return rw, conn, nil
	}
	return rw, nil, nil
}

func c18tRun(in c18tInput) (msg, key string, infra bool) {
	svc, _ := varlink.NewService("v", "p", "1", "u")
	svc.RegisterInterface(&c18tStream{ticks: in.Ticks})
	tag := fmt.Sprintf("vx18-%d-%d", os.Getpid(), time.Now().UnixNano())
	addr := "unix:@" + tag
	if in.Transport == "tcp" {
		addr = fmt.Sprintf("tcp:127.0.0.1:%d", freePort())
	}
	done := make(chan error, 1)
	go func() { done <- svc.Listen(context.Background(), addr, 0) }()
	for t0 := time.Now(); ; time.Sleep(50 * time.Microsecond) {
		if l, _ := svc.GetListener(); l != nil {
			break
		}
		select {
		case e := <-done:
			return "service did not start: " + fmt.Sprint(e), "infra", true
		default:
		}
		if time.Since(t0) > 30*time.Second {
			return "service did not start within 30 s", "infra", true
		}
	}
	defer func() {
		svc.Shutdown()
		select {
		case <-done:
		case <-time.After(30 * time.Second):
		}
	}()
	ctx, cancel := context.WithTimeout(context.Background(), 60*time.Second)
	defer cancel()
	var wait time.Duration
	var rctx context.Context = ctx
	if in.BgRead {
		wait, rctx = 150*time.Millisecond, context.Background()
	}
	rw, keep, err := c18tOpen(ctx, addr, in.KeepConn, wait)
	if err != nil {
		return "upgrade: " + err.Error(), "infra", true
	}
	var got strings.Builder
	buf := make([]byte, 64)
	var rerr error
	for rerr == nil {
		// the collector and the finalizer goroutine get their chance between reads
		runtime.GC()
		runtime.Gosched()
		var n int
		n, rerr = rw.Read(rctx, buf)
		got.Write(buf[:n])
	}
	runtime.KeepAlive(keep)
	if ctx.Err() != nil {
		return "watchdog", "infra", true
	}
	var want strings.Builder
	for i := 0; i < in.Ticks; i++ {
		fmt.Fprintf(&want, "tick %03d\n", i)
	}
	k := fmt.Sprintf("transport=%s keep_conn=%v", in.Transport, in.KeepConn)
	if in.BgRead {
		k += " bg_read=true"
	}
	if got.String() != want.String() {
		var ne net.Error
		_ = ne
		return fmt.Sprintf("%s: the upgraded stream delivered %d of %d bytes and then ended with %v (the client held only the object Upgrade returned, the collector ran between reads)", in.Transport, got.Len(), want.Len(), rerr), "symptom=upgraded-stream-cut " + k, false
	}
	return "", "", false
}

func runC18T(tier string, r *Result) {
	var inputs []c18tInput
	for _, tr := range []string{"unix", "tcp"} {
		for _, ticks := range []int{1, 10, 40} {
			for _, keep := range []bool{false, true} {
				inputs = append(inputs, c18tInput{Transport: tr, Ticks: ticks, KeepConn: keep})
			}
		}
		inputs = append(inputs, c18tInput{Transport: tr, Ticks: 10, KeepConn: true, BgRead: true})
	}
	for i, in := range inputs {
		if !r.mine(i) || r.expired() {
			continue
		}
		r.note(in)
		msg, key, infra := c18tRun(in)
		r.Executions++
		r.Nodes++
		r.Steps += in.Ticks
		if infra {
			r.Extra["inconclusive_environment"]++
			r.outcome("inconclusive " + in.Transport + ": " + msg)
			continue
		}
		if msg != "" {
			r.outcome("violation " + key)
			r.violation(key, msg, in)
			continue
		}
		r.outcome(fmt.Sprintf("whole upgraded stream: %s keep_conn=%v", in.Transport, in.KeepConn))
	}
	r.Extra["real_runtime_upgrade_cases"] = len(inputs)
}

func init() {
	props["C18"] = propFn{run: runC18T, replay: func(raw json.RawMessage) (string, string) {
		var in c18tInput
		json.Unmarshal(raw, &in)
		for i := 0; i < 3; i++ {
			msg, key, infra := c18tRun(in)
			if !infra {
				return msg, key
			}
		}
		return "", ""
	}, rule: "second harness (real runtime): unix and TCP x 1/10/40 lines streamed by the service after the upgrade reply x {the client keeps only the object Upgrade returned, it also keeps the Connection}; the collector runs between the client's reads; every byte must arrive, then EOF; states = cases executed",
		assume: []string{"OS- and runtime-scheduled; a 60 s watchdog classifies a run as inconclusive"}}
}
