// hb: engine-B harness binary - bounded-exhaustive enumeration of inputs and configurations for the
// properties whose code path needs no controlled scheduler (IDL parser, generator, address strings,
// socket activation, real-transport conformance). Built from /repo's working tree with only the static
// accessor overlay.
package main

import (
	"crypto/sha256"
	"encoding/hex"
	"encoding/json"
	"flag"
	"fmt"
	"os"
	"sort"
	"sync/atomic"
	"time"
)

type Violation struct {
	Scenario interface{} `json:"scenario"`
	Choices  []int       `json:"choices"`
	Msg      string      `json:"msg"`
	Key      string      `json:"key"`
	Replay   string      `json:"replay,omitempty"`
}

type Result struct {
	Property   string         `json:"property"`
	Shard      int            `json:"shard"`
	Scenarios  int            `json:"scenarios"`
	Executions int            `json:"executions"`
	Steps      int            `json:"steps"`
	Nodes      int            `json:"nodes"`
	MaxDepth   int            `json:"max_depth"`
	MaxBound   int            `json:"max_bound"`
	Capped     bool           `json:"capped"`
	Outcomes   map[string]int `json:"outcomes"`
	Violations []Violation    `json:"violations"`
	Samples    []interface{}  `json:"samples"`
	Extra      map[string]int `json:"extra,omitempty"`
	Infra      string         `json:"infra,omitempty"`
	Rule       string         `json:"rule,omitempty"`
	Assume     []string       `json:"assumptions,omitempty"`
	WallS      float64        `json:"wall_s"`
	seenKeys   map[string]bool
	seenIn     map[uint64]struct{}
	deadline   time.Time
}

var (
	flagTier    = flag.String("tier", "quick", "quick|thorough")
	flagShard   = flag.Int("shard", 0, "shard index")
	flagShards  = flag.Int("shards", 1, "number of shards")
	flagOut     = flag.String("out", "", "result file (JSON)")
	flagReplay  = flag.String("replay", "", "replay file")
	flagBudget  = flag.Duration("budget", 0, "wall-clock budget for this shard (0 = none)")
	flagReplays = flag.String("replaydir", "/verif/replays", "where violation replays are written")
	flagQueue   = flag.String("queue", "", "ignored (engine B shards by index)")
	flagHelper  = flag.String("helper", "", "internal: run as helper subprocess")
)

func hashStr(s string) string {
	h := sha256.Sum256([]byte(s))
	return hex.EncodeToString(h[:8])
}

func jstr(v interface{}) string {
	b, _ := json.Marshal(v)
	return string(b)
}

func short(s string) string {
	if len(s) > 300 {
		return s[:300] + fmt.Sprintf("...(%d bytes)", len(s))
	}
	return s
}

func (r *Result) mine(i int) bool { hbProgress.Add(1); return i%*flagShards == *flagShard }

// hang watchdog: every enumerator calls mine()/outcome() between inputs; when neither has been called for
// hangAfter, the call under test has not returned - a stable state of a sequential harness, not a timing
// verdict (the stages with their own clocks use watchdogs well below it).
var (
	hbProgress atomic.Int64
	hbCurrent  atomic.Value
)

const hangAfter = 300 * time.Second

// note records the input being executed, for the watchdog's report
func (r *Result) note(in interface{}) { hbCurrent.Store(jstr(in)) }

func startHangWatchdog(onHang func(input string)) {
	go func() {
		last, since := int64(-1), time.Now()
		for {
			time.Sleep(5 * time.Second)
			if cur := hbProgress.Load(); cur != last {
				last, since = cur, time.Now()
				continue
			}
			if time.Since(since) > hangAfter {
				in, _ := hbCurrent.Load().(string)
				onHang(in)
				return
			}
		}
	}()
}

func (r *Result) expired() bool {
	if !r.deadline.IsZero() && time.Now().After(r.deadline) {
		r.Capped = true
		return true
	}
	return false
}

func (r *Result) outcome(o string) { hbProgress.Add(1); r.Outcomes[o]++ }

// distinct counts an input text once (FNV-1a hash set, per shard).
func (r *Result) distinct(s string) {
	h := uint64(14695981039346656037)
	for i := 0; i < len(s); i++ {
		h ^= uint64(s[i])
		h *= 1099511628211
	}
	if _, ok := r.seenIn[h]; !ok {
		r.seenIn[h] = struct{}{}
		r.Extra["distinct_inputs"]++
	}
}

func (r *Result) sample(v interface{}) {
	if len(r.Samples) < 4 {
		r.Samples = append(r.Samples, v)
	}
}

// violation records one violation per distinct key, with a replay file holding the input.
func (r *Result) violation(key, msg string, input interface{}) {
	r.Extra["violating_cases"]++
	if r.seenKeys[key] {
		return
	}
	r.seenKeys[key] = true
	os.MkdirAll(*flagReplays, 0o755)
	path := fmt.Sprintf("%s/%s-%s.json", *flagReplays, r.Property, hashStr(key+jstr(input)))
	b, _ := json.MarshalIndent(map[string]interface{}{"property": r.Property, "key": key, "msg": msg, "input": input}, "", " ")
	os.WriteFile(path, b, 0o644)
	r.Violations = append(r.Violations, Violation{Scenario: input, Msg: msg, Key: key, Replay: path})
}

type propFn struct {
	run    func(tier string, r *Result)
	replay func(input json.RawMessage) (msg, key string)
	rule   string
	assume []string
}

var props = map[string]propFn{}

func main() {
	flag.Parse()
	if *flagHelper != "" {
		os.Exit(helperMain(*flagHelper, flag.Args()))
	}
	if flag.NArg() < 1 {
		fmt.Fprintln(os.Stderr, "usage: hb [flags] <property>")
		os.Exit(2)
	}
	prop := flag.Arg(0)
	p, ok := props[prop]
	if !ok {
		fmt.Fprintln(os.Stderr, "unknown property", prop)
		os.Exit(2)
	}
	if *flagReplay != "" {
		b, err := os.ReadFile(*flagReplay)
		if err != nil {
			fmt.Fprintln(os.Stderr, err)
			os.Exit(2)
		}
		var rf struct {
			Input json.RawMessage `json:"input"`
			Key   string          `json:"key"`
		}
		if err := json.Unmarshal(b, &rf); err != nil || p.replay == nil {
			fmt.Fprintln(os.Stderr, "cannot replay:", err)
			os.Exit(2)
		}
		startHangWatchdog(func(string) {
			fmt.Printf("VIOLATION property=%s replay=%s\n  key=symptom=hang\n  the call under test did not return within %s\n", prop, *flagReplay, hangAfter)
			os.Exit(1)
		})
		msg, key := p.replay(rf.Input)
		fmt.Printf("input: %s\n", short(string(rf.Input)))
		if msg != "" {
			fmt.Printf("VIOLATION property=%s replay=%s\n  key=%s\n  %s\n", prop, *flagReplay, key, msg)
			os.Exit(1)
		}
		fmt.Println("replay: property holds on this input")
		return
	}
	t0 := time.Now()
	res := &Result{Property: prop, Shard: *flagShard, Outcomes: map[string]int{}, Extra: map[string]int{}, seenKeys: map[string]bool{}, seenIn: map[uint64]struct{}{}, Rule: p.rule, Assume: p.assume}
	if *flagBudget > 0 {
		res.deadline = t0.Add(*flagBudget)
	}
	startHangWatchdog(func(in string) {
		// the enumerating goroutine is stuck inside the library: res is not being written
		res.violation("symptom=hang", fmt.Sprintf("the call under test did not return within %s (no input finished since); input being executed: %s", hangAfter, short(in)), json.RawMessage(orNull(in)))
		res.outcome("violation:symptom=hang")
		res.WallS = time.Since(t0).Seconds()
		b, _ := json.Marshal(res)
		if *flagOut != "" {
			os.WriteFile(*flagOut, b, 0o644)
		} else {
			fmt.Printf("  VIOLATION key=symptom=hang input=%s\n", short(in))
		}
		os.Exit(0)
	})
	p.run(*flagTier, res)
	res.WallS = time.Since(t0).Seconds()
	b, _ := json.Marshal(res)
	if *flagOut != "" {
		os.WriteFile(*flagOut, b, 0o644)
	} else {
		keys := []string{}
		for k := range res.Outcomes {
			keys = append(keys, k)
		}
		sort.Strings(keys)
		fmt.Printf("property=%s cases=%d states=%d steps=%d outcomes=%d capped=%v wall=%.1fs infra=%q extra=%v\n", prop, res.Executions, res.Nodes, res.Steps, len(res.Outcomes), res.Capped, res.WallS, res.Infra, res.Extra)
		for _, k := range keys {
			if len(keys) <= 40 {
				fmt.Printf("  outcome %-60s %d\n", k, res.Outcomes[k])
			}
		}
		for _, v := range res.Violations {
			fmt.Printf("  VIOLATION key=%q msg=%q input=%s replay=%s\n", v.Key, short(v.Msg), short(jstr(v.Scenario)), v.Replay)
		}
	}
	if res.Infra != "" {
		fmt.Fprintln(os.Stderr, "INFRA:", res.Infra)
		os.Exit(2)
	}
}

func helperMain(kind string, args []string) int {
	if h, ok := helpers[kind]; ok {
		return h(args)
	}
	fmt.Fprintln(os.Stderr, "unknown helper", kind)
	return 2
}

var helpers = map[string]func(args []string) int{}

func orNull(s string) string {
	if s == "" || !json.Valid([]byte(s)) {
		return "null"
	}
	return s
}

func writeFile(path string, b []byte) { os.WriteFile(path, b, 0o644) }
func exitNow(code int)                { os.Exit(code) }
