package main

// Real-transport conformance stages of C15 and C17. The deciding exploration of these properties runs on
// vnet (a model of net.Listener / net.Conn) under the controlled scheduler; these stages tie the model's
// assumptions to the kernel's sockets, the in-memory pipe and the bridge's pipes by running the library
// itself over them. The OS schedules these runs, so every clause is one-sided: an operation that must
// return is awaited under a 30 s watchdog (margin >= 10^3 over its normal duration), states that must
// hold are observed after a round trip proved the precondition, and nothing is ever required to happen
// "within" a short time.

import (
	"context"
	"encoding/json"
	"fmt"
	"io"
	"net"
	"os"
	"runtime/debug"
	"strings"
	"time"

	"github.com/varlink/go/varlink"
)

const watchdog = 30 * time.Second

// ------------------------------------------------------------------------------------------------ C17

type c17tInput struct {
	Transport string `json:"transport"` // unix | tcp | pipe | bridge
	Op        string `json:"op"`        // read | write | service-read
	Cause     string `json:"cause"`     // cancel | deadline
	Pre       string `json:"pre"`       // before | blocked : the context ends before the call / while it is blocked
}

// helper "c17peer <mode>": the remote end of a bridge. mode silent: read frames; after the second complete frame
// answer "R1" and "R2" frames; mode sink: never read (a writer to us must block).
func c17Peer(args []string) int {
	mode := "silent"
	if len(args) > 0 {
		mode = args[0]
	}
	return c17PeerLoop(os.Stdin, os.Stdout, mode)
}

func c17PeerLoop(r io.Reader, w io.Writer, mode string) int {
	if mode == "sink" {
		// never read; go away when the harness process is gone
		for i := 0; i < 120 && os.Getppid() != 1; i++ {
			time.Sleep(time.Second)
		}
		return 0
	}
	buf := make([]byte, 65536)
	frames := 0
	for {
		n, err := r.Read(buf)
		for _, b := range buf[:n] {
			if b == 0 {
				frames++
				if frames == 2 {
					w.Write([]byte(`{"parameters":{"r":"R1","n":9007199254740993}}` + "\x00" + `{"parameters":{"r":"R2"}}` + "\x00"))
				}
			}
		}
		if err != nil {
			return 0
		}
	}
}

// c17tConnect builds a library Connection whose peer runs c17PeerLoop in the given mode.
func c17tConnect(transport, mode string) (conn *varlink.Connection, cleanup func(), err error) {
	switch transport {
	case "unix", "tcp":
		var l net.Listener
		if transport == "unix" {
			l, err = net.Listen("unix", fmt.Sprintf("@vx17-%d-%d", os.Getpid(), time.Now().UnixNano()))
		} else {
			l, err = net.Listen("tcp", "127.0.0.1:0")
		}
		if err != nil {
			return nil, nil, err
		}
		go func() {
			s, err := l.Accept()
			if err == nil {
				c17PeerLoop(s, s, mode)
				s.Close()
			}
		}()
		c, err := net.Dial(l.Addr().Network(), l.Addr().String())
		if err != nil {
			l.Close()
			return nil, nil, err
		}
		return varlink.VerifNewConnection(c), func() { c.Close(); l.Close() }, nil
	case "pipe":
		a, b := net.Pipe()
		go func() { c17PeerLoop(b, b, mode); b.Close() }()
		return varlink.VerifNewConnection(a), func() { a.Close(); b.Close() }, nil
	case "bridge":
		conn, err := varlink.NewBridgeWithStderr(fmt.Sprintf("exec %s -helper c17peer %s", os.Args[0], mode), io.Discard)
		if err != nil {
			return nil, nil, err
		}
		return conn, func() { go conn.Close() }, nil
	}
	return nil, nil, fmt.Errorf("unknown transport")
}

func ctxFor(cause, pre string) (context.Context, func()) {
	switch {
	case cause == "cancel" && pre == "before":
		ctx, cancel := context.WithCancel(context.Background())
		cancel()
		return ctx, func() {}
	case cause == "cancel":
		ctx, cancel := context.WithCancel(context.Background())
		t := time.AfterFunc(100*time.Millisecond, cancel)
		return ctx, func() { t.Stop(); cancel() }
	case pre == "before":
		ctx, cancel := context.WithDeadline(context.Background(), time.Now().Add(-time.Second))
		return ctx, cancel
	default:
		ctx, cancel := context.WithTimeout(context.Background(), 100*time.Millisecond)
		return ctx, cancel
	}
}

// await runs f under the watchdog; ok=false means it never returned. A panic inside f is recorded in lastPanic.
var lastPanic string

func await(f func()) bool {
	done := make(chan struct{})
	lastPanic = ""
	go func() {
		defer func() {
			if p := recover(); p != nil {
				lastPanic = fmt.Sprintf("%v\n%s", p, debug.Stack())
			}
			close(done)
		}()
		f()
	}()
	select {
	case <-done:
		return true
	case <-time.After(watchdog):
		return false
	}
}

func c17tRun(in c17tInput) (msg, key string, infra bool) {
	msg, key, infra = c17tRun1(in)
	if lastPanic != "" {
		return "the library panicked: " + short(lastPanic), fmt.Sprintf("symptom=panic transport=%s op=%s cause=%s", in.Transport, in.Op, in.Cause), false
	}
	return msg, key, infra
}

func c17tRun1(in c17tInput) (msg, key string, infra bool) {
	k := fmt.Sprintf("transport=%s op=%s cause=%s", in.Transport, in.Op, in.Cause)
	switch in.Op {
	case "read":
		conn, cleanup, err := c17tConnect(in.Transport, "silent")
		if err != nil {
			return err.Error(), "infra", true
		}
		defer cleanup()
		live := context.Background()
		recv, err := conn.Send(live, "a.b.First", nil, varlink.More)
		if err != nil {
			return "Send: " + err.Error(), "infra", true
		}
		ctx, stop := ctxFor(in.Cause, in.Pre)
		defer stop()
		var rerr error
		if !await(func() { var out json.RawMessage; _, rerr = recv(ctx, &out) }) {
			return fmt.Sprintf("receive on the %s transport did not return within %v of its context ending (%s, %s)", in.Transport, watchdog, in.Cause, in.Pre), "symptom=blocked-operation-ignores-context " + k, false
		}
		if rerr == nil {
			return "receive returned success although the peer sent nothing", "symptom=spurious-success " + k, false
		}
		// reuse under a live context: the peer answers after the second frame; both replies must arrive, in order
		var r1, r2 struct {
			R string      `json:"r"`
			N json.Number `json:"n"`
		}
		var e1, e2 error
		if !await(func() {
			var recv2 func(context.Context, interface{}) (uint64, error)
			recv2, e1 = conn.Send(live, "a.b.Second", nil, varlink.More)
			if e1 != nil {
				return
			}
			_, e1 = recv2(live, &r1)
			if e1 == nil {
				_, e2 = recv2(live, &r2)
			}
		}) {
			return fmt.Sprintf("after a cancelled receive the %s connection is unusable: the next operations did not return within %v", in.Transport, watchdog), "symptom=connection-unusable-after-cancel " + k, false
		}
		if e1 != nil || e2 != nil {
			return fmt.Sprintf("after a cancelled receive, operations under a live context failed: %v / %v", e1, e2), "symptom=stale-deadline-or-lost-bytes " + k, false
		}
		if r1.R != "R1" || r1.N != "9007199254740993" || r2.R != "R2" {
			return fmt.Sprintf("after a cancelled receive the stream continued with %+v, %+v (want R1, R2)", r1, r2), "symptom=stream-corrupted " + k, false
		}
	case "write":
		conn, cleanup, err := c17tConnect(in.Transport, "sink")
		if err != nil {
			return err.Error(), "infra", true
		}
		defer cleanup()
		ctx, stop := ctxFor(in.Cause, in.Pre)
		defer stop()
		big := map[string]string{"s": strings.Repeat("x", 32<<20)}
		var serr error
		if !await(func() { _, serr = conn.Send(ctx, "a.b.Big", big, varlink.Oneway) }) {
			return fmt.Sprintf("Send of 32 MiB to a peer that does not read did not return within %v of its context ending on the %s transport", watchdog, in.Transport), "symptom=blocked-operation-ignores-context " + k, false
		}
		if serr == nil {
			return "Send returned success although the peer reads nothing", "symptom=spurious-success " + k, false
		}
	case "service-read":
		// a handler parked in its per-connection read must end when the serving context ends
		svc, _ := varlink.NewService("v", "p", "1", "u")
		addr := fmt.Sprintf("unix:@vx17s-%d-%d", os.Getpid(), time.Now().UnixNano())
		if in.Transport == "tcp" {
			addr = fmt.Sprintf("tcp:127.0.0.1:%d", freePort())
		}
		ctx, cancel := context.WithCancel(context.Background())
		if in.Cause == "deadline" {
			cancel()
			ctx, cancel = context.WithTimeout(context.Background(), 200*time.Millisecond)
		}
		defer cancel()
		done := make(chan error, 1)
		go func() { done <- svc.Listen(ctx, addr, 0) }()
		for t0 := time.Now(); ; time.Sleep(50 * time.Microsecond) {
			if l, _ := svc.GetListener(); l != nil {
				break
			}
			if time.Since(t0) > watchdog {
				return "service did not start", "infra", true
			}
		}
		defer func() { svc.Shutdown(); <-done }()
		c, err := varlink.NewConnection(context.Background(), addr)
		if err != nil {
			return err.Error(), "infra", true
		}
		defer c.Close()
		var prod string
		if err := c.GetInfo(context.Background(), nil, &prod, nil, nil, nil); err != nil {
			return "GetInfo: " + err.Error(), "infra", true
		}
		if in.Cause == "cancel" {
			cancel()
		}
		// the service must drop the idle connection: the client's next receive ends with an error (EOF)
		var rerr error
		if !await(func() {
			recv, err := c.Send(context.Background(), "org.varlink.service.Nope", nil, 0)
			_ = err
			for i := 0; i < 3 && rerr == nil && recv != nil; i++ {
				var out json.RawMessage
				_, rerr = recv(context.Background(), &out)
				if rerr != nil && strings.Contains(rerr.Error(), "MethodNotFound") {
					rerr = nil // answered before the handler noticed the cancellation: ask again
					recv, _ = c.Send(context.Background(), "org.varlink.service.Nope", nil, 0)
					time.Sleep(50 * time.Millisecond)
				}
			}
		}) {
			return fmt.Sprintf("a connection handler parked in its read did not end within %v of the serving context ending (%s)", watchdog, in.Transport), "symptom=handler-ignores-context " + k, false
		}
	}
	return "", "", false
}

func runC17T(tier string, r *Result) {
	var inputs []c17tInput
	for _, tr := range []string{"unix", "tcp", "pipe", "bridge"} {
		for _, cause := range []string{"cancel", "deadline"} {
			for _, pre := range []string{"blocked", "before"} {
				inputs = append(inputs, c17tInput{tr, "read", cause, pre}, c17tInput{tr, "write", cause, pre})
			}
		}
	}
	for _, tr := range []string{"unix", "tcp"} {
		for _, cause := range []string{"cancel", "deadline"} {
			inputs = append(inputs, c17tInput{tr, "service-read", cause, "blocked"})
		}
	}
	for i, in := range inputs {
		if !r.mine(i) || r.expired() {
			continue
		}
		msg, key, infra := c17tRun(in)
		r.Executions++
		r.Nodes++
		r.Steps += 4
		r.Extra["real_transport_scenarios"]++
		switch {
		case infra:
			r.Extra["inconclusive_environment"]++
			r.outcome("inconclusive " + in.Transport + ": " + msg)
		case msg != "":
			r.outcome("violation " + key)
			r.violation(key, msg, in)
		default:
			r.outcome(fmt.Sprintf("ok %s %s %s %s", in.Transport, in.Op, in.Cause, in.Pre))
		}
	}
}

// ------------------------------------------------------------------------------------------------ C15

type c15tInput struct {
	Transport string `json:"transport"` // unix | abstract | tcp
	Kind      string `json:"kind"`      // idle | connected | notimeout
}

func c15tRun(in c15tInput) (msg, key string, infra bool) {
	k := fmt.Sprintf("transport=%s kind=%s", in.Transport, in.Kind)
	tag := fmt.Sprintf("vx15-%d-%d", os.Getpid(), time.Now().UnixNano())
	var addr string
	switch in.Transport {
	case "unix":
		d := fmt.Sprintf("c15t-%d", *flagShard)
		os.MkdirAll(d, 0o755)
		addr = "unix:" + d + "/" + tag[len(tag)-12:] + ".sock"
	case "abstract":
		addr = "unix:@" + tag
	case "tcp":
		addr = fmt.Sprintf("tcp:127.0.0.1:%d", freePort())
	}
	svc, _ := varlink.NewService("v", "P-"+tag, "1", "u")
	timeout := 150 * time.Millisecond
	if in.Kind == "notimeout" {
		timeout = 0
	}
	sctx := context.Background()
	if in.Kind == "ctxdeadline" {
		// the serving context carries a deadline of its own, far earlier than the idle period
		timeout = 20 * time.Second
		var cancel func()
		sctx, cancel = context.WithTimeout(context.Background(), 100*time.Millisecond)
		defer cancel()
	}
	if in.Kind == "crowd" {
		timeout = 300 * time.Millisecond
	}
	done := make(chan error, 1)
	started := time.Now()
	go func() { done <- svc.Listen(sctx, addr, timeout) }()
	waitListener := func() bool {
		for t0 := time.Now(); time.Since(t0) < watchdog; time.Sleep(50 * time.Microsecond) {
			if l, _ := svc.GetListener(); l != nil {
				return true
			}
			select {
			case e := <-done:
				done <- e
				return false
			default:
			}
		}
		return false
	}
	if !waitListener() {
		select {
		case e := <-done:
			if _, ok := e.(varlink.ServiceTimeoutError); ok && in.Kind != "notimeout" {
				break // it already timed out (the harness was slow): continue with the after-timeout clauses
			}
			return fmt.Sprintf("service did not start: %v", e), "infra", true
		default:
			return "service did not start", "infra", true
		}
		done <- varlink.ServiceTimeoutError{}
	}
	switch in.Kind {
	case "ctxdeadline":
		// no client ever connects. Whatever the context's deadline does to the serving call, it is not an idle period: the
		// service must not report ServiceTimeoutError before the timeout period has elapsed once since it started.
		select {
		case e := <-done:
			if _, ok := e.(varlink.ServiceTimeoutError); ok && time.Since(started) < timeout {
				return fmt.Sprintf("a service with a %v idle timeout reported ServiceTimeoutError %v after it was started (its context had a 100 ms deadline): no idle period had elapsed", timeout, time.Since(started)), "symptom=timeout-before-idle-period " + k, false
			}
			return "", "", false
		case <-time.After(1500 * time.Millisecond):
		}
		svc.Shutdown()
		if !await(func() { <-done }) {
			return "Shutdown did not end a service whose context had expired", "symptom=serving-call-never-returns " + k, false
		}
		return "", "", false
	case "crowd":
		// 140 connections open at the same time, each proven accepted by a round trip, then all closed: the service is
		// idle again and the next expiry must stop it (falls through to the idle clauses below)
		var cs []*varlink.Connection
		for i := 0; i < 140; i++ {
			c, err := varlink.NewConnection(context.Background(), addr)
			if err != nil {
				if i == 0 {
					return "could not establish the first connection before the first expiry: " + err.Error(), "infra", true
				}
				continue
			}
			cs = append(cs, c)
			ctx, cancel := context.WithTimeout(context.Background(), watchdog/2)
			c.GetInfo(ctx, nil, nil, nil, nil, nil)
			cancel()
		}
		select {
		case e := <-done:
			for _, c := range cs {
				c.Close()
			}
			return fmt.Sprintf("the service stopped (%v) while %d connections were open", e, len(cs)), "symptom=timeout-stopped-a-non-idle-service " + k, false
		default:
		}
		for _, c := range cs {
			c.Close()
		}
	case "notimeout":
		// never stops by itself: after a round trip and an idle pause it is still serving; Shutdown ends it
		c, err := varlink.NewConnection(context.Background(), addr)
		if err != nil {
			return err.Error(), "infra", true
		}
		c.GetInfo(context.Background(), nil, nil, nil, nil, nil)
		c.Close()
		time.Sleep(400 * time.Millisecond)
		select {
		case e := <-done:
			return fmt.Sprintf("a service started without a timeout stopped by itself: %v", e), "symptom=stopped-without-timeout " + k, false
		default:
		}
		svc.Shutdown()
		<-done
		return "", "", false
	case "connected":
		c, err := varlink.NewConnection(context.Background(), addr)
		if err == nil {
			var prod string
			err = c.GetInfo(context.Background(), nil, &prod, nil, nil, nil)
		}
		if err != nil {
			// the period may have expired before we connected: nothing to judge
			if c != nil {
				c.Close()
			}
			return "could not establish the connection before the first expiry: " + err.Error(), "infra", true
		}
		// the round trip proves the connection was accepted and counted: while it is open no expiry may stop the service
		time.Sleep(6 * timeout)
		select {
		case e := <-done:
			c.Close()
			return fmt.Sprintf("the service stopped (%v) while a connection that had completed a call was still open", e), "symptom=timeout-stopped-a-non-idle-service " + k, false
		default:
		}
		if err := c.GetInfo(context.Background(), nil, nil, nil, nil, nil); err != nil {
			c.Close()
			return fmt.Sprintf("the open connection stopped being served: %v", err), "symptom=timeout-stopped-a-non-idle-service " + k, false
		}
		c.Close()
	}
	// idle (or idle again): the next expiry must stop the service with the dedicated error
	var lerr error
	select {
	case lerr = <-done:
	case <-time.After(watchdog):
		svc.Shutdown()
		return fmt.Sprintf("an idle service with a %v timeout did not stop within %v", timeout, watchdog), "symptom=idle-service-does-not-time-out " + k, false
	}
	if _, ok := lerr.(varlink.ServiceTimeoutError); !ok {
		return fmt.Sprintf("serving ended with %v (%T), want ServiceTimeoutError", lerr, lerr), "symptom=wrong-timeout-error " + k, false
	}
	// endpoint released: a connection attempt fails (it must not hang in a dead listener's backlog) ...
	var derr error
	var c2 *varlink.Connection
	if !await(func() {
		ctx, cancel := context.WithTimeout(context.Background(), watchdog/2)
		defer cancel()
		c2, derr = varlink.NewConnection(ctx, addr)
		if derr == nil {
			derr = c2.GetInfo(ctx, nil, nil, nil, nil, nil)
			c2.Close()
		}
	}) || derr == nil {
		return "after the service timed out a client still connected to the address and was answered / kept waiting", "symptom=endpoint-not-released " + k, false
	}
	if strings.Contains(derr.Error(), "deadline exceeded") {
		return "after the service timed out a connection attempt was accepted into a dead listener's backlog and waited for ever", "symptom=endpoint-not-released " + k, false
	}
	// ... and the same address can be served again at once
	done2 := make(chan error, 1)
	go func() { done2 <- svc.Listen(context.Background(), addr, 0) }()
	for t0 := time.Now(); ; time.Sleep(50 * time.Microsecond) {
		if l, _ := svc.GetListener(); l != nil {
			break
		}
		select {
		case e := <-done2:
			return fmt.Sprintf("the address cannot be served again after the timeout: %v", e), "symptom=address-not-reusable " + k, false
		default:
		}
		if time.Since(t0) > watchdog {
			return "second Listen neither failed nor bound", "infra", true
		}
	}
	c3, err := varlink.NewConnection(context.Background(), addr)
	if err == nil {
		var prod string
		err = c3.GetInfo(context.Background(), nil, &prod, nil, nil, nil)
		c3.Close()
		if err == nil && prod != "P-"+tag {
			err = fmt.Errorf("answered by product %q", prod)
		}
	}
	svc.Shutdown()
	<-done2
	if err != nil {
		return fmt.Sprintf("serving the same address again after the timeout does not work: %v", err), "symptom=address-not-reusable " + k, false
	}
	return "", "", false
}

func runC15T(tier string, r *Result) {
	var inputs []c15tInput
	for _, tr := range []string{"unix", "abstract", "tcp"} {
		for _, kind := range []string{"idle", "connected", "notimeout", "ctxdeadline", "crowd"} {
			inputs = append(inputs, c15tInput{tr, kind})
		}
	}
	defer os.RemoveAll(fmt.Sprintf("c15t-%d", *flagShard))
	for i, in := range inputs {
		if !r.mine(i) || r.expired() {
			continue
		}
		msg, key, infra := c15tRun(in)
		r.Executions++
		r.Nodes++
		r.Steps += 5
		r.Extra["real_endpoint_scenarios"]++
		switch {
		case infra:
			r.Extra["inconclusive_environment"]++
			r.outcome("inconclusive " + in.Transport + ": " + msg)
		case msg != "":
			r.outcome("violation " + key)
			r.violation(key, msg, in)
		default:
			r.outcome(fmt.Sprintf("ok %s %s", in.Transport, in.Kind))
		}
	}
}

func init() {
	helpers["c17peer"] = c17Peer
	props["C17"] = propFn{run: runC17T, replay: func(raw json.RawMessage) (string, string) {
		var in c17tInput
		json.Unmarshal(raw, &in)
		msg, key, infra := c17tRun(in)
		if infra {
			return "", ""
		}
		return msg, key
	}, rule: "real-transport stage: {unix socket, TCP loopback, net.Pipe, bridge child process} x {receive with nothing in flight, Send of 32 MiB to a peer that does not read} x {cancel, deadline} x {context ended before the call, while blocked}, each followed (reads) by reuse of the connection under a live context with two replies that must arrive intact and in order; plus service handlers parked in their read when the serving context ends (unix, tcp); the library's own Connection/Service over the real transports",
		assume: []string{"one-sided: an operation that must return is awaited under a 30 s watchdog; its expiry is the finding 'did not return'"}}
	props["C15"] = propFn{run: runC15T, replay: func(raw json.RawMessage) (string, string) {
		var in c15tInput
		json.Unmarshal(raw, &in)
		msg, key, infra := c15tRun(in)
		if infra {
			return "", ""
		}
		return msg, key
	}, rule: "real-endpoint stage: {unix path, abstract unix, TCP} x {idle service with a 150 ms timeout; a connection that completed a call and stays open for 6 periods, then closes; no timeout}: the idle service stops with ServiceTimeoutError, a non-idle one does not and still answers, a service without timeout never stops by itself; after a timeout stop a connection attempt fails (no dead backlog) and the same Service serves the same address again",
		assume: []string{"real clock, one-sided margins: nothing is required to happen within a short time; 'connected' is judged only after a round trip proved the connection was accepted"}}
}
