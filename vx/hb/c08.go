package main

// C08 - generated stubs are a faithful typed binding of the description.
//
// For every description of a bounded set (every type expression up to a depth at every position) the
// tree's generator output is compiled, together with a mechanically derived glue file, into a driver
// program; vx/c08rt then enumerates, per method, input and output values of every declared type and
// runs client stub -> real Connection -> wire -> Service.HandleMessage -> generated dispatcher ->
// implementation -> reply helper -> wire -> client stub, comparing every frame and every value with a
// reference encoding of the varlink JSON mapping.

import (
	"bytes"
	"encoding/json"
	"fmt"
	"go/ast"
	"go/parser"
	"go/printer"
	"go/token"
	"os"
	"os/exec"
	"path/filepath"
	"strings"
	"time"
)

type c08Case struct {
	Tree     *RIDL    `json:"tree"`
	Features []string `json:"features"`
}

func c08Cases(tier string) []c08Case {
	depth := 1
	if tier == "thorough" {
		depth = 2
	}
	var out []c08Case
	add := func(d *RIDL, f ...string) { out = append(out, c08Case{Tree: d, Features: f}) }
	t0 := RMember{Kind: "type", Name: "T0", Type: TStruct(F("x", T("int")))}
	for _, t := range typeSet(depth) {
		ms := []RMember{t0,
			{Kind: "method", Name: "M", In: TStruct(F("f", t), F("g", T("int"))), Out: TStruct(F("f", t), F("g", T("bool")))},
			{Kind: "error", Name: "E", Type: TStruct(F("f", t), F("why", T("string")))},
			{Kind: "type", Name: "T1", Type: TStruct(F("f", t), F("n", T("int")))},
			{Kind: "method", Name: "N", In: TStruct(F("x", TAlias("T1"))), Out: TStruct(F("y", TMaybe(TAlias("T1"))), F("z", TArr(TAlias("T1"))))},
		}
		add(&RIDL{Name: "a.b", Members: ms}, "type:"+typeText(t))
	}
	// shapes: no inputs / no outputs / several methods / errors without fields / typeless error
	add(&RIDL{Name: "a.b", Members: []RMember{
		{Kind: "method", Name: "Ping", In: TStruct(), Out: TStruct()},
		{Kind: "method", Name: "In", In: TStruct(F("a", T("string"))), Out: TStruct()},
		{Kind: "method", Name: "Out", In: TStruct(), Out: TStruct(F("a", T("string")))},
		{Kind: "method", Name: "AllOptional", In: TStruct(F("a", TMaybe(T("string"))), F("b", TMaybe(T("int")))), Out: TStruct(F("c", TMaybe(T("bool"))))},
		{Kind: "error", Name: "Plain"},
		{Kind: "error", Name: "Empty", Type: TStruct()},
		{Kind: "error", Name: "Two", Type: TStruct(F("a", T("int")), F("b", TArr(T("string"))))},
	}}, "shapes")
	// same-typed parameter pairs (argument order), many fields
	add(&RIDL{Name: "a.b", Members: []RMember{
		{Kind: "method", Name: "M", In: TStruct(F("a", T("int")), F("b", T("int")), F("c", T("string")), F("d", T("string"))), Out: TStruct(F("a", T("int")), F("b", T("int")), F("c", T("string")), F("d", T("string")))},
		{Kind: "error", Name: "E", Type: TStruct(F("a", T("int")), F("b", T("int")), F("c", T("string")), F("d", T("string")))},
	}}, "same-typed-pairs")
	// field names: Go keywords, generator-local identifiers, mixed case and underscores
	for _, group := range [][]string{{"type", "func", "go", "range"}, {"map", "interface", "select", "chan"}, {"var", "in", "out", "c"}, {"ctx", "m", "s", "e"}, {"err", "err_", "flags", "receive"}, {"call", "conn", "param", "methodname"}, {"aB", "a_b", "zZ9", "a__"}} {
		var fs []RField
		for i, n := range group {
			fs = append(fs, F(n, []*RType{T("int"), T("string"), TMaybe(T("bool")), TArr(T("int"))}[i%4]))
		}
		add(&RIDL{Name: "a.b", Members: []RMember{
			{Kind: "method", Name: "M", In: TStruct(fs...), Out: TStruct(fs...)},
			{Kind: "error", Name: "E", Type: TStruct(fs...)},
		}}, "fieldnames:"+strings.Join(group, ","))
	}
	// field names that differ only in letter case, of the same type, side by side and in a nested record
	add(&RIDL{Name: "a.b", Members: []RMember{
		{Kind: "method", Name: "M", In: TStruct(F("ab", T("int")), F("aB", T("int")), F("p", TStruct(F("id", T("string")), F("iD", T("string"))))), Out: TStruct(F("ab", T("int")), F("aB", T("int")), F("q", TStruct(F("id", T("string")), F("iD", T("string")))))},
		{Kind: "error", Name: "E", Type: TStruct(F("ab", T("string")), F("aB", T("string")))},
	}}, "fieldnames:case-only")
	// a record below a map, an optional map, an array of maps, a map of arrays (the wire names of its fields are the description's)
	rec2 := TStruct(F("count", T("int")), F("label", TMaybe(T("string"))))
	for i, t2 := range []*RType{TMap(rec2), TMaybe(TMap(rec2)), TArr(TMap(rec2)), TMap(TArr(rec2)), TMap(TMap(rec2))} {
		add(&RIDL{Name: "a.b", Members: []RMember{
			{Kind: "method", Name: "M", In: TStruct(F("items", t2)), Out: TStruct(F("items", t2))},
			{Kind: "error", Name: "E", Type: TStruct(F("items", t2))},
		}}, fmt.Sprintf("record-below-map:%d", i))
	}
	// interface names
	for _, n := range []string{"A.Bc", "a.b-c", "org.example.more", "xn--a.b"} {
		add(&RIDL{Name: n, Members: []RMember{t0, {Kind: "method", Name: "M", In: TStruct(F("x", TAlias("T0"))), Out: TStruct(F("y", T("string")))}, {Kind: "error", Name: "E", Type: TStruct(F("r", T("string")))}}}, "name:"+n)
	}
	// recursive aliases
	node := RMember{Kind: "type", Name: "Node", Type: TStruct(F("name", T("string")), F("children", TArr(TAlias("Node"))), F("next", TMaybe(TAlias("Node"))))}
	add(&RIDL{Name: "a.b", Members: []RMember{node, {Kind: "method", Name: "M", In: TStruct(F("n", TAlias("Node"))), Out: TStruct(F("r", TArr(TAlias("Node"))))}}}, "recursive-alias")
	return out
}

func typeText(t *RType) string {
	r := &renderer{}
	r.typ(t)
	return strings.ReplaceAll(render(r.ps, nil), " ", "")
}

// glue derives zz_verif.go from the generated file's own AST: an implementation forwarding every method of
// the generated service interface to the run-time handler, one that overrides nothing, and the registration.
func c08Glue(src []byte, key string) ([]byte, error) {
	fset := token.NewFileSet()
	f, err := parser.ParseFile(fset, "gen.go", src, 0)
	if err != nil {
		return nil, err
	}
	pkg := f.Name.Name
	var iface *ast.InterfaceType
	var methodObjs []string
	for _, d := range f.Decls {
		switch x := d.(type) {
		case *ast.GenDecl:
			for _, s := range x.Specs {
				if ts, ok := s.(*ast.TypeSpec); ok {
					if it, ok := ts.Type.(*ast.InterfaceType); ok && strings.HasSuffix(ts.Name.Name, "Interface") && ts.Name.Name != "VarlinkInterface" {
						iface = it
					}
					if strings.HasSuffix(ts.Name.Name, "_methods") {
						methodObjs = append(methodObjs, strings.TrimSuffix(ts.Name.Name, "_methods"))
					}
				}
			}
		}
	}
	if iface == nil {
		return nil, fmt.Errorf("generated file declares no <pkg>Interface")
	}
	var b bytes.Buffer
	var body bytes.Buffer
	needJSON := false
	for _, m := range iface.Methods.List {
		ft, ok := m.Type.(*ast.FuncType)
		if !ok || len(m.Names) != 1 {
			continue
		}
		var sig bytes.Buffer
		printer.Fprint(&sig, fset, ft)
		st := strings.TrimPrefix(sig.String(), "func")
		if strings.Contains(st, "json.") {
			needJSON = true
		}
		var names []string
		n := 0
		for _, p := range ft.Params.List {
			for _, id := range p.Names {
				if n >= 2 {
					names = append(names, id.Name)
				}
				n++
			}
		}
		fmt.Fprintf(&body, "func (z *zzFull) %s%s {\n\treturn z.h(%q, ctx, &c, []interface{}{%s})\n}\n\n", m.Names[0].Name, st, m.Names[0].Name, strings.Join(names, ", "))
	}
	fmt.Fprintf(&b, "// glue derived by /verif from the generated file; not part of varlink/go\n\npackage %s\n\nimport (\n\t\"context\"\n", pkg)
	if needJSON {
		b.WriteString("\t\"encoding/json\"\n")
	}
	b.WriteString("\n\t\"vx/c08rt\"\n)\n\nvar _ context.Context\n\n")
	if needJSON {
		b.WriteString("var _ json.RawMessage\n\n")
	}
	b.WriteString("type zzFull struct {\n\tVarlinkInterface\n\th c08rt.Handler\n}\n\ntype zzNone struct{ VarlinkInterface }\n\n")
	b.Write(body.Bytes())
	b.WriteString("func init() {\n\tc08rt.Register(&c08rt.Pkg{\n")
	fmt.Fprintf(&b, "\t\tName: %q,\n", key)
	b.WriteString("\t\tNewFull: func(h c08rt.Handler) c08rt.Dispatcher { return VarlinkNew(&zzFull{h: h}) },\n")
	b.WriteString("\t\tNewNone: func() c08rt.Dispatcher { return VarlinkNew(&zzNone{}) },\n")
	b.WriteString("\t\tDispatchError: Dispatch_Error,\n\t\tMethods: map[string]interface{}{\n")
	for _, m := range methodObjs {
		fmt.Fprintf(&b, "\t\t\t%q: %s(),\n", m, m)
	}
	b.WriteString("\t\t},\n\t})\n}\n")
	return b.Bytes(), nil
}

type c08Violation struct {
	Case int    `json:"case"`
	Key  string `json:"key"`
	Msg  string `json:"msg"`
}

type c08Report struct {
	Violations []c08Violation `json:"violations"`
	Executions int            `json:"executions"`
	Steps      int            `json:"steps"`
	Outcomes   map[string]int `json:"outcomes"`
	Missing    []string       `json:"missing"`
}

// c08Run generates, builds and runs the driver for the given cases (index -> case).
func c08Run(dir string, tier string, cases map[int]c08Case, env *c07Env, r *Result) (rep *c08Report, infra string) {
	os.RemoveAll(dir)
	os.MkdirAll(dir, 0o755)
	defer os.RemoveAll(dir)
	os.WriteFile(filepath.Join(dir, "go.mod"), []byte("module c08drv\n\ngo 1.23\n\nrequire github.com/varlink/go v0.0.0\n\nrequire vx v0.0.0\n\nreplace github.com/varlink/go => /repo\n\nreplace vx => /verif/vx\n"), 0o644)
	type spec struct {
		Index int   `json:"index"`
		Tree  *RIDL `json:"tree"`
	}
	var specs []spec
	var imports []string
	for idx, c := range cases {
		cc := c07Case{Tree: c.Tree, Name: c.Tree.Name, Features: c.Features}
		cc.Text = cc.render()
		msg, key, out, _ := env.judge(cc)
		if key == "not-accepted" || msg != "" || out == nil {
			unknown := key == "not-accepted"
			if !unknown {
				for _, a := range env.attribute(cc, msg, key) {
					if !strings.Contains(a[0], "trigger=") {
						unknown = true
					}
				}
			}
			if unknown {
				// not one of the description classes the generator is known not to handle: the stubs of an ordinary
				// description cannot carry the round trip (wrong name reported, does not compile, ...)
				r.violation("symptom=stubs-unusable "+symptomOf(key)+" features="+strings.Join(c.Features, ","), "the stubs generated for this description cannot be used for the round trip: "+msg, c)
				continue
			}
			// outside C08's domain: C07 reports what is wrong with this description
			r.outcome("skipped: the description does not pass C07 (" + symptomOf(key) + ")")
			r.Extra["skipped_not_c07_clean"]++
			continue
		}
		key = fmt.Sprintf("p%d", idx)
		glue, err := c08Glue(out, key)
		if err != nil {
			r.violation("symptom=glue features="+strings.Join(c.Features, ","), "cannot derive the driver glue from the generated file: "+err.Error(), c)
			continue
		}
		os.MkdirAll(filepath.Join(dir, key), 0o755)
		os.WriteFile(filepath.Join(dir, key, "gen.go"), out, 0o644)
		os.WriteFile(filepath.Join(dir, key, "zz_verif.go"), glue, 0o644)
		specs = append(specs, spec{idx, c.Tree})
		imports = append(imports, fmt.Sprintf("\t_ \"c08drv/%s\"\n", key))
	}
	if len(specs) == 0 {
		return &c08Report{Outcomes: map[string]int{}}, ""
	}
	os.WriteFile(filepath.Join(dir, "main.go"), []byte("package main\n\nimport (\n"+strings.Join(imports, "")+"\n\t\"vx/c08rt\"\n)\n\nfunc main() { c08rt.Main() }\n"), 0o644)
	sb, _ := json.Marshal(specs)
	os.WriteFile(filepath.Join(dir, "spec.json"), sb, 0o644)
	cmd := exec.Command("go", "build", "-overlay", os.Getenv("VX_OVERLAY"), "-o", "drv", ".")
	cmd.Dir = dir
	cmd.Env = os.Environ()
	if b, err := cmd.CombinedOutput(); err != nil {
		// a compile error in a generated package is C07's business; in the glue it is ours
		return nil, "building the C08 driver failed: " + short(string(b))
	}
	run := exec.Command(filepath.Join(dir, "drv"), filepath.Join(dir, "spec.json"), tier)
	run.Dir = dir
	var stdout, stderr bytes.Buffer
	run.Stdout, run.Stderr = &stdout, &stderr
	if err := run.Start(); err != nil {
		return nil, err.Error()
	}
	done := make(chan error, 1)
	go func() { done <- run.Wait() }()
	select {
	case err := <-done:
		if err != nil {
			return nil, "the C08 driver failed: " + err.Error() + " " + short(stderr.String())
		}
	case <-time.After(30 * time.Minute):
		run.Process.Kill()
		return nil, "the C08 driver did not finish within 30 minutes"
	}
	rep = &c08Report{}
	if err := json.Unmarshal(stdout.Bytes(), rep); err != nil {
		return nil, "bad driver output: " + err.Error() + " " + short(stdout.String())
	}
	if len(rep.Missing) > 0 {
		return nil, fmt.Sprintf("packages not registered in the driver: %v", rep.Missing)
	}
	return rep, ""
}

func runC08(tier string, r *Result) {
	cases := c08Cases(tier)
	tc, err := newTypeChecker()
	if err != nil {
		r.Infra = err.Error()
		return
	}
	env := &c07Env{g: &genServer{}, tc: tc}
	defer env.g.stop()
	mine := map[int]c08Case{}
	for i, c := range cases {
		if r.mine(i) {
			mine[i] = c
		}
	}
	dir, _ := filepath.Abs(fmt.Sprintf("c08-%d", *flagShard))
	rep, infra := c08Run(dir, tier, mine, env, r)
	if infra != "" {
		r.Infra = infra
		return
	}
	r.Executions += rep.Executions
	r.Steps += rep.Steps
	r.Nodes += len(mine)
	r.Scenarios += len(mine)
	for k, v := range rep.Outcomes {
		r.Outcomes[k] += v
	}
	for _, v := range rep.Violations {
		c := cases[v.Case]
		r.violation(v.Key, v.Msg+"  [description: "+short(render(pieces(c.Tree), nil))+"]", c)
	}
	for _, c := range mine {
		if len(r.Samples) < 2 {
			r.sample(render(pieces(c.Tree), nil))
		}
	}
	r.Extra["descriptions"] = len(cases)
	r.MaxBound = map[string]int{"quick": 1, "thorough": 2}[tier]
}

func init() {
	props["C08"] = propFn{run: runC08, replay: func(raw json.RawMessage) (string, string) {
		var c c08Case
		json.Unmarshal(raw, &c)
		tc, err := newTypeChecker()
		if err != nil {
			return err.Error(), "infra"
		}
		env := &c07Env{g: &genServer{}, tc: tc}
		defer env.g.stop()
		r := &Result{Property: "C08", Outcomes: map[string]int{}, Extra: map[string]int{}, seenKeys: map[string]bool{}, seenIn: map[uint64]struct{}{}}
		dir, _ := filepath.Abs("c08-replay")
		rep, infra := c08Run(dir, *flagTier, map[int]c08Case{0: c}, env, r)
		if infra != "" {
			return infra, "infra"
		}
		if len(rep.Violations) > 0 {
			return rep.Violations[0].Msg, rep.Violations[0].Key
		}
		return "", ""
	}, rule: "translation validation by bounded-exhaustive execution: for every type expression of depth <=1 (thorough 2) over all 11 constructors one description uses it as method input, method output, error parameter, alias-struct field and behind an alias in optional and array position; plus descriptions for parameterless methods, all-optional inputs, typeless/empty errors, same-typed parameter pairs, 28 field names (Go keywords, generator-local identifiers, mixed case), 4 interface-name forms and recursive aliases. Each generated package (compiled from the working tree's generator output with a glue file derived from the output's own AST) is driven per method with the all-default input/output records and every record deviating in one field over per-type value alphabets (int64 extremes and 2^53+1, floats, strings with NUL/quotes/non-BMP, arbitrary JSON for object, empty/1/2-3 element arrays and maps incl. the empty key, absent/present optionals, first/last enum member, nested records): plain Call for every pair; More with 0-2 continues replies, Oneway and Upgrade for the first and last pair; every declared error with every parameter record; an implementation overriding nothing; an unknown method; 6 undecodable parameter frames. Every call frame, reply frame, argument seen by the implementation, flag view, value and typed error returned by the client is compared with a reference encoder of the varlink JSON mapping; states = descriptions, transitions = frames",
		assume: []string{"descriptions that do not pass C07 (known findings of the generator) are outside C08's domain and are skipped and counted", "the transport is an in-process loop that hands each complete client frame to Service.HandleMessage (real Connection, real Call); segmentation and real transports are C02's and C03's", "value alphabets, not all values of every type"}}
}
