package main

import (
	"encoding/json"
	"fmt"
	"strings"
	"sync/atomic"
	"time"

	"github.com/varlink/go/varlink/idl"
)

// ---------------------------------------------------------------------------------------------
// Bounded-exhaustive tree set shared by C05, C06 (edit neighbourhoods) and C09 (truncations).

func typeSet(depth int) []*RType {
	leaves := []*RType{T("bool"), T("int"), T("float"), T("string"), T("object"), TAlias("T0"), TStruct(), TEnum("a"), TEnum("a", "b")}
	if depth == 0 {
		return leaves
	}
	prev := typeSet(depth - 1)
	out := append([]*RType(nil), leaves...)
	for _, t := range prev {
		if t.Kind != "maybe" {
			out = append(out, TMaybe(t))
		}
		out = append(out, TArr(t), TMap(t), TStruct(F("a", t)), TStruct(F("a", t), F("b_1", T("int"))), TStruct(F("a", T("string")), F("zZ9", t)))
	}
	return out
}

func baseMembers() []RMember {
	return []RMember{
		{Kind: "type", Name: "T0", Type: TStruct(F("x", T("int")))},
		{Kind: "method", Name: "M", In: TStruct(), Out: TStruct()},
	}
}

var treeCache = map[int][]*RIDL{}

func treeSet(depth int) []*RIDL {
	if t, ok := treeCache[depth]; ok {
		return t
	}
	var out []*RIDL
	add := func(name string, ms ...RMember) {
		out = append(out, &RIDL{Name: name, Members: ms})
	}
	b := baseMembers()
	for _, n := range []string{"a.b", "Com.example.uppercase-toplevel", "xn--lgbbat1ad8j.example.algeria", "a.0b-c", "org.varlink.service", "org.example.my-cool-service", "a.b-c-d-e.f-g-h", "xn--ab.c-d-e"} {
		add(n, b...)
	}
	for _, t := range typeSet(depth) {
		if t.Kind == "struct" || t.Kind == "enum" {
			add("a.b", b[0], RMember{Kind: "type", Name: "T1", Type: t}, b[1])
		}
		add("a.b", b[0], RMember{Kind: "method", Name: "M", In: TStruct(F("f", t)), Out: TStruct()})
		add("a.b", b[0], RMember{Kind: "method", Name: "M", In: TStruct(), Out: TStruct(F("f", t), F("g", T("bool")))})
		add("a.b", b[0], b[1], RMember{Kind: "error", Name: "E", Type: TStruct(F("f", t))})
		add("a.b", b[0], RMember{Kind: "type", Name: "T1", Type: TStruct(F("f", t))}, b[1])
	}
	// name forms: conformant field names (lower-case start, letters, digits, single underscores in any number) at
	// every position a field name can stand, and conformant member names
	for _, fn := range []string{"a", "z9", "aB", "a_b", "a_b_c", "max_retry_count", "iPv6_addr_list_v2", "a1_2_b3", "x_y_z_w_v_u", "if", "type", "aXbYcZ0_9"} {
		add("a.b", RMember{Kind: "type", Name: "T1", Type: TStruct(F(fn, T("int")), F("q", TStruct(F(fn, TMaybe(T("string"))))))},
			RMember{Kind: "type", Name: "T2", Type: TEnum(fn, "other")},
			RMember{Kind: "type", Name: "T3", Type: TEnum("other", fn)},
			RMember{Kind: "method", Name: "M", In: TStruct(F(fn, T("int"))), Out: TStruct(F("r", T("bool")), F(fn, TArr(TAlias("T1"))))},
			RMember{Kind: "error", Name: "E", Type: TStruct(F(fn, T("string")))})
	}
	for _, mn := range []string{"T", "T1", "TypeName", "ABC", "Aa0", "X9y8Z7", "Interface", "Method"} {
		add("a.b", RMember{Kind: "type", Name: mn, Type: TStruct(F("f", T("int")))},
			RMember{Kind: "method", Name: mn + "M", In: TStruct(F("f", TAlias(mn))), Out: TStruct()},
			RMember{Kind: "error", Name: mn + "E", Type: TStruct(F("f", TMaybe(TAlias(mn))))})
	}
	// member-list shapes: all sequences of <= 3 members with at least one method
	kinds := []string{"type", "method", "error", "errorT"}
	var rec func(seq []string)
	rec = func(seq []string) {
		if len(seq) > 0 {
			hasM := false
			for _, k := range seq {
				if k == "method" {
					hasM = true
				}
			}
			if hasM {
				var ms []RMember
				for i, k := range seq {
					n := fmt.Sprintf("N%d", i)
					switch k {
					case "type":
						ms = append(ms, RMember{Kind: "type", Name: n, Type: TStruct(F("x", T("int")))})
					case "method":
						ms = append(ms, RMember{Kind: "method", Name: n, In: TStruct(F("i", T("string"))), Out: TStruct(F("o", TArr(T("int"))))})
					case "error":
						ms = append(ms, RMember{Kind: "error", Name: n})
					case "errorT":
						ms = append(ms, RMember{Kind: "error", Name: n, Type: TStruct(F("reason", T("string")))})
					}
				}
				add("a.b", ms...)
			}
		}
		if len(seq) == 3 {
			return
		}
		for _, k := range kinds {
			rec(append(seq, k))
		}
	}
	rec(nil)
	// large interfaces: many members of one shape (limits and counters that only many members reach)
	big := func(n int, mk func(i int) RMember, tail ...RMember) {
		var ms []RMember
		for i := 0; i < n; i++ {
			ms = append(ms, mk(i))
		}
		add("a.b", append(ms, tail...)...)
	}
	m0 := RMember{Kind: "method", Name: "Zz", In: TStruct(), Out: TStruct()}
	big(40, func(i int) RMember {
		return RMember{Kind: "method", Name: fmt.Sprintf("M%d", i), In: TStruct(), Out: TStruct()}
	})
	big(70, func(i int) RMember { return RMember{Kind: "error", Name: fmt.Sprintf("E%d", i), Type: TStruct()} }, m0)
	big(70, func(i int) RMember { return RMember{Kind: "type", Name: fmt.Sprintf("T%d", i), Type: TStruct()} }, m0)
	big(40, func(i int) RMember {
		return RMember{Kind: "method", Name: fmt.Sprintf("M%d", i), In: TStruct(F("a", TStruct()), F("b", TMaybe(TStruct()))), Out: TStruct(F("c", TArr(TStruct())), F("d", TEnum("x", "y")))}
	})
	big(120, func(i int) RMember {
		return RMember{Kind: "method", Name: fmt.Sprintf("M%d", i), In: TStruct(F("a", T("int"))), Out: TStruct(F("b", T("string")))}
	})
	treeCache[depth] = out
	return out
}

func parse(text string) (tree *idl.IDL, err error, panicked string) {
	defer func() {
		if r := recover(); r != nil {
			panicked = fmt.Sprint(r)
		}
	}()
	tree, err = idl.New(text)
	return
}

// ---------------------------------------------------------------------------------------------
// C05

type c05Input struct {
	Tree  *RIDL  `json:"tree"`
	Text  string `json:"text"`
	Docs  bool   `json:"docs"`
	Where string `json:"layout"`
}

func judgeC05(in c05Input) (string, string) {
	tree, err, pan := parse(in.Text)
	if pan != "" {
		return "parser panicked: " + pan, "panic"
	}
	if err != nil {
		return fmt.Sprintf("a description inside the grammar was rejected: %v", err), "symptom=valid-description-rejected layout=" + in.Where
	}
	if p := cmpIDL(in.Tree, tree, in.Text, in.Docs); p != "" {
		k := "symptom=wrong-tree"
		if strings.Contains(p, "documentation") {
			k = "symptom=wrong-doc"
		}
		return p, k + " layout=" + in.Where
	}
	return "", ""
}

func fillerName(f string) string {
	return strings.NewReplacer("\n", "\\n", "\r", "\\r", "\t", "\\t").Replace(f)
}

func runC05(tier string, r *Result) {
	depth := 2
	pairs := false
	if tier != "quick" {
		depth = 3
		pairs = true
	}
	trees := treeSet(depth)
	idx := 0
	for ti, d := range trees {
		if !r.mine(ti) {
			continue
		}
		if r.expired() {
			return
		}
		r.Scenarios++
		ps := pieces(d)
		gaps := gapsOf(ps)
		def := render(ps, nil)
		judge := func(layout map[int]string, where string) {
			text := def
			if layout != nil {
				text = render(ps, layout)
			}
			in := c05Input{Tree: d, Text: text, Where: where}
			r.Executions++
			r.Steps += len(text)
			r.distinct(text)
			if msg, key := judgeC05(in); msg != "" {
				r.violation(key, msg, in)
				r.outcome("violation:" + key)
			} else {
				r.outcome("ok:" + where)
			}
			idx++
		}
		judge(nil, "default")
		r.sample(map[string]string{"text": def})
		// final line without newline, and comment at end of input
		last := len(gaps) - 1
		for _, f := range []string{"", " ", "# end", "\n# end", "\r\n"} {
			judge(map[int]string{last: f}, "final="+fillerName(f))
		}
		for gi, g := range gaps {
			if len(d.Members) > 10 && gi >= 24 && gi < len(gaps)-12 {
				continue // large interfaces: the layouts of the first and last members only
			}
			for _, f := range gapFillers {
				if f == g.def || !fillerOK(g.class, f, g.prev, g.next) {
					continue
				}
				judge(map[int]string{gi: f}, "1gap:"+fillerName(f))
				r.Nodes++
			}
		}
		// two non-default gaps: all pairs for small trees (thorough), a fixed second gap otherwise
		if pairs && len(gaps) <= 14 {
			for gi, g := range gaps {
				for gj := gi + 1; gj < len(gaps); gj++ {
					h := gaps[gj]
					for _, f := range gapFillers {
						if f == g.def || !fillerOK(g.class, f, g.prev, g.next) {
							continue
						}
						for _, f2 := range []string{"\n", " # c\n", "#\n", "\r\n"} {
							if f2 == h.def || !fillerOK(h.class, f2, h.prev, h.next) {
								continue
							}
							judge(map[int]string{gi: f, gj: f2}, "2gaps")
						}
					}
				}
			}
		} else {
			for gi, g := range gaps {
				if gi == 0 {
					continue
				}
				for _, f := range []string{"\n", " # c\n", "#\n"} {
					if f == g.def || !fillerOK(g.class, f, g.prev, g.next) || !fillerOK(gaps[0].class, "# top\n", "", "interface") {
						continue
					}
					judge(map[int]string{0: "# top\n", gi: f}, "2gaps")
				}
			}
		}
	}
	// documentation blocks (only trees of the member-shape family and the base)
	docSets := [][]string{nil, {"d"}, {"d1", "d2"}, {""}, {"x", "", "y"}, {"  indented", "#hash # more"}, {"é😀"}, {"1) first", "(unique [", "-> :) type T ()"}}
	for ti, d := range trees {
		if !r.mine(ti) || len(d.Members) > 3 || (ti > 6 && !strings.HasPrefix(d.Members[0].Name, "N")) {
			continue
		}
		if r.expired() {
			return
		}
		for di, ds := range docSets {
			for _, indent := range []string{"", "  ", "\t"} {
				for _, crlf := range []bool{false, true} {
					for _, inner := range []string{"", "\n", " # c\n", "\r\n", "tight", "tight+trail"} {
						dd := &RIDL{Name: d.Name, Doc: docSets[(di+1)%len(docSets)]}
						for mi, m := range d.Members {
							m.Doc = docSets[(di+mi)%len(docSets)]
							dd.Members = append(dd.Members, m)
						}
						_ = ds
						var text string
						docTrail = ""
						switch inner {
						case "tight":
							// members without blank lines between them ...
							text = renderDocsT(dd, indent, crlf, "", true, "")
						case "tight+trail":
							// ... and with a trailing comment on the interface line and every member's last line
							text = renderDocsT(dd, indent, crlf, "", true, "t")
						default:
							text = renderDocs(dd, indent, crlf, inner)
						}
						in := c05Input{Tree: dd, Text: text, Docs: true, Where: fmt.Sprintf("docs indent=%q crlf=%v inner=%q", indent, crlf, inner)}
						r.Executions++
						r.Steps += len(text)
						r.distinct(text)
						if msg, key := judgeC05(in); msg != "" {
							r.violation(key, msg, in)
							r.outcome("violation:" + key)
						} else {
							r.outcome("ok:docs")
						}
						docTrail = ""
					}
				}
			}
		}
	}
	r.MaxBound = 1
	if pairs {
		r.MaxBound = 2
	}
}

// ---------------------------------------------------------------------------------------------
// C06

func judgeC06(text string) (string, string) {
	tree, err, pan := parse(text)
	if pan != "" {
		return "parser panicked: " + pan, "panic"
	}
	if err != nil {
		if tree != nil {
			return "an error was returned together with a tree", "symptom=error-and-tree"
		}
		return "", ""
	}
	if tree == nil {
		return "neither tree nor error", "symptom=no-tree-no-error"
	}
	printed, problem := printIDL(tree)
	if problem != "" {
		return "accepted, but the tree violates a structural invariant: " + problem, "symptom=tree-invariant"
	}
	if strip(printed) != strip(text) {
		return fmt.Sprintf("accepted, but re-printing the tree gives %q which differs from the input beyond whitespace and comments: text was dropped or reinterpreted", short(printed)), "symptom=text-not-accounted-for"
	}
	names := map[string]bool{}
	for _, m := range tree.Members {
		var n string
		switch x := m.(type) {
		case *idl.Alias:
			n = x.Name
		case *idl.Method:
			n = x.Name
		case *idl.Error:
			n = x.Name
		}
		if names[n] {
			return fmt.Sprintf("accepted with duplicate member %q", n), "symptom=duplicate-member"
		}
		names[n] = true
	}
	if len(tree.Methods) == 0 {
		return "accepted without any method", "symptom=no-method"
	}
	if !liberalOK(text) {
		return "accepted although the text is ill-formed under the most liberal reading of the grammar", "symptom=ill-formed-accepted"
	}
	return "", ""
}

var c06Tokens = []string{"type", "method", "error", "T", "U", "a", "b", "(", ")", "()", ":", ",", "->", "?", "[]", "[string]", "[int]", "int", "string", "\n", "# c\n", "#\n", "§"}

func runC06(tier string, r *Result) {
	maxLen := 5
	nt := len(c06Tokens)
	judge := func(text string, fam string) {
		r.Executions++
		r.Steps += len(text)
		r.distinct(text)
		msg, key := judgeC06(text)
		if msg != "" {
			r.violation(key, msg, text)
			r.outcome("violation:" + key)
			return
		}
		t, _, _ := parse(text)
		switch {
		case t != nil:
			r.outcome(fam + ":accepted+roundtrip-ok")
		case liberalOK(text):
			r.outcome(fam + ":rejected, liberal grammar accepts (unspecified)")
		default:
			r.outcome(fam + ":rejected, ill-formed")
		}
	}
	accepted := 0
	// (a) all token sequences up to maxLen, two renderings (joined by a space / by nothing)
	total := 0
	for l := 1; l <= maxLen; l++ {
		n := 1
		for i := 0; i < l; i++ {
			n *= nt
		}
		for code := 0; code < n; code++ {
			total++
			if !r.mine(total) {
				continue
			}
			if total%4096 == 0 && r.expired() {
				return
			}
			toks := make([]string, l)
			c := code
			for i := 0; i < l; i++ {
				toks[i] = c06Tokens[c%nt]
				c /= nt
			}
			for _, sep := range []string{" ", ""} {
				text := "interface a.b\n" + strings.Join(toks, sep)
				judge(text, "tokens")
				if t, e, _ := parse(text); e == nil && t != nil {
					accepted++
				}
			}
			r.Nodes++
		}
	}
	r.sample(map[string]string{"text": "interface a.b\nmethod T () -> ()"})
	// thorough: length 6 over a 12-token sub-alphabet
	if tier != "quick" {
		sub := []string{"type", "method", "error", "T", "a", "(", ")", "()", ":", ",", "->", "int"}
		n := 1
		for i := 0; i < 6; i++ {
			n *= len(sub)
		}
		for code := 0; code < n; code++ {
			total++
			if !r.mine(total) {
				continue
			}
			if total%4096 == 0 && r.expired() {
				return
			}
			toks := make([]string, 6)
			c := code
			for i := 0; i < 6; i++ {
				toks[i] = sub[c%len(sub)]
				c /= len(sub)
			}
			judge("interface a.b\n"+strings.Join(toks, " "), "tokens6")
			r.Nodes++
		}
	}
	// (b) every single-token deletion, insertion, substitution and adjacent transposition of every
	// default-layout description of the tree set
	depth := 1
	if tier != "quick" {
		depth = 2
	}
	ins := []string{"type", "method", "error", "T", "a", "(", ")", ":", ",", "->", "?", "[]", "[string]", "[int]", "int", "§", "interface", "#", "#\n", "# c\n", "#  \n", "#\r\n",
		"[T]", "[strin]", "[stringy]", "[?]", "[(]", "[a]", "[ ]", "[string ]",
		// a comment start with a NUL (or other control byte) in it: whatever follows on the line is comment text
		"# \x00", "#\x00", "# \x1b", "#a\x00b ",
		// ... and with a CR that no LF follows: a comment ends at the line feed, nowhere else
		"# c\r", "#\r", "# c\r ", "#c\rd\r",
		// names with an underscore where only field names may have one
		"T_", "My_T", "T_x", "_", "_T"}
	for ti, d := range treeSet(depth) {
		if !r.mine(ti) {
			continue
		}
		if r.expired() {
			return
		}
		r.Scenarios++
		ps := pieces(d)
		var tokIdx []int
		for i, p := range ps {
			if p.class == 0 {
				tokIdx = append(tokIdx, i)
			}
		}
		renderWith := func(mod func(ps []piece) []piece) string {
			cp := append([]piece(nil), ps...)
			return render(mod(cp), nil)
		}
		if len(d.Members) > 10 {
			tokIdx = append(append([]int(nil), tokIdx[:min(len(tokIdx), 30)]...), tokIdx[max(len(tokIdx)-12, 30):]...)
		}
		for k, i := range tokIdx {
			// deletion
			judge(renderWith(func(p []piece) []piece { p[i].tok = ""; return p }), "del")
			// substitution and insertion
			for _, t := range ins {
				if t != ps[i].tok {
					judge(renderWith(func(p []piece) []piece { p[i].tok = t; return p }), "sub")
				}
				judge(renderWith(func(p []piece) []piece { p[i].tok = t + " " + p[i].tok; return p }), "ins")
				judge(renderWith(func(p []piece) []piece { p[i].tok = t + p[i].tok; return p }), "ins0")
			}
			// transposition with the next token
			if k+1 < len(tokIdx) {
				j := tokIdx[k+1]
				judge(renderWith(func(p []piece) []piece { p[i].tok, p[j].tok = p[j].tok, p[i].tok; return p }), "swap")
			}
			// duplication of the token (e.g. doubled punctuation, duplicate members are covered below)
			judge(renderWith(func(p []piece) []piece { p[i].tok = p[i].tok + " " + p[i].tok; return p }), "dup")
			r.Nodes++
		}
		// duplicate member: append a copy of each member. Uniqueness must not depend on where the lines break: the
		// same text is also judged with the first member on the interface line, on a single line, behind blank
		// lines and with CRLF line ends (the default layout has no comments, so the replacements are layout-only).
		judgeDup := func(text, fam string) {
			judge(text, fam)
			if len(d.Members) > 10 {
				return
			}
			judge(strings.Replace(text, "\n", " ", 1), fam+"-firstline")
			judge(strings.ReplaceAll(text, "\n", " "), fam+"-oneline")
			judge("\n\n"+text, fam+"-blankfirst")
			judge(strings.ReplaceAll(text, "\n", "\r\n"), fam+"-crlf")
		}
		for _, m := range d.Members {
			dd := &RIDL{Name: d.Name, Members: append(append([]RMember(nil), d.Members...), m)}
			judgeDup(render(pieces(dd), nil), "dupmember")
			// the same name reused by a member of every other kind, placed first and last (one name space for all members)
			for _, other := range []RMember{
				{Kind: "type", Name: m.Name, Type: TStruct(F("q", T("int")))},
				{Kind: "method", Name: m.Name, In: TStruct(), Out: TStruct()},
				{Kind: "error", Name: m.Name, Type: TStruct(F("q", T("int")))},
				{Kind: "error", Name: m.Name},
			} {
				if other.Kind == m.Kind {
					continue
				}
				judgeDup(render(pieces(&RIDL{Name: d.Name, Members: append(append([]RMember(nil), d.Members...), other)}), nil), "dupmember-crosskind")
				judgeDup(render(pieces(&RIDL{Name: d.Name, Members: append([]RMember{other}, d.Members...)}), nil), "dupmember-crosskind")
			}
		}
		// trailing garbage
		for _, g := range []string{"x", "(", ")", "§", "\x00", "type", "method F", "error", "->", "interface a.b"} {
			judge(render(ps, nil)+g, "trailing")
		}
	}
	// (c0) interface names with characters that only a case-folding match takes for letters (U+212A KELVIN SIGN,
	// U+017F LONG S), an underscore, upper case in an xn-- name
	if r.mine(1) {
		for _, nm := range []string{"a.b\u212a", "\u212a.b", "a.\u017f", "foo.ba\u212a.c", "a.b_c", "a_b.c", "xn--A.b", "a.b\u00e9"} {
			for _, rest := range []string{"\nmethod F() -> ()\n", " method F() -> ()\n"} {
				judge("interface "+nm+rest, "oddname")
			}
		}
	}
	// (c) interface names around the 255-byte limit with the first member glued to them, one blank or one newline
	// behind them: a name is the longest run of name characters, whatever its length
	if r.mine(0) {
		for n := 250; n <= 260; n++ {
			for _, nm := range []string{"a." + strings.Repeat("b", n-2), "a." + strings.Repeat("b1-", (n-2)/3) + strings.Repeat("c", (n-2)%3), strings.Repeat("ab.", n/3) + "d" + strings.Repeat("e", n%3)} {
				for _, rest := range []string{"type T ()\nmethod F() -> ()\n", "method F() -> ()\n", "error E ()\nmethod F() -> ()\n"} {
					for _, sep := range []string{"", " ", "\n", "\n# c\n"} {
						judge("interface "+nm+sep+rest, "longname")
					}
				}
			}
		}
	}
	r.Extra["accepted_token_sequences"] = accepted
	r.outcome(fmt.Sprintf("accepted-token-sequences-in-shard>0:%v", accepted > 0))
	r.MaxBound = maxLen
}

// ---------------------------------------------------------------------------------------------
// C09

var c09Progress atomic.Int64
var c09Current atomic.Value

func judgeC09(text string) (string, string) {
	tree, err, pan := parse(text)
	if pan != "" {
		return "idl.New panicked: " + pan, "panic " + panicClass(pan)
	}
	if (tree == nil) == (err == nil) {
		return "idl.New returned neither exactly a tree nor exactly an error", "symptom=tree-xor-error"
	}
	return "", ""
}

func panicClass(p string) string {
	switch {
	case strings.Contains(p, "slice bounds"):
		return "slice-bounds"
	case strings.Contains(p, "index out of range"):
		return "index-out-of-range"
	case strings.Contains(p, "nil pointer"):
		return "nil-deref"
	}
	return "other"
}

func runC09(tier string, r *Result) {
	// watchdog: the parser is linear, microseconds per input; no progress for 60 s is a hang
	done := make(chan struct{})
	go func() {
		last := int64(-1)
		stuck := 0
		for {
			select {
			case <-done:
				return
			case <-time.After(10 * time.Second):
			}
			cur := c09Progress.Load()
			if cur == last {
				stuck++
			} else {
				stuck = 0
			}
			last = cur
			if stuck >= 6 {
				in, _ := c09Current.Load().(string)
				r.violation("symptom=hang", "idl.New did not return within 60 s", in)
				b, _ := json.Marshal(r)
				if *flagOut != "" {
					writeFile(*flagOut, b)
				}
				exitNow(0)
			}
		}
	}()
	defer close(done)
	judge := func(text string) {
		c09Current.Store(text)
		r.Executions++
		r.Steps += len(text)
		r.distinct(text)
		if msg, key := judgeC09(text); msg != "" {
			r.violation(key, msg, text)
			r.outcome("violation:" + key)
		} else if t, _, _ := parse(text); t != nil {
			r.outcome("returned-tree")
		} else {
			r.outcome("returned-error")
		}
		c09Progress.Add(1)
	}
	// (1) every byte-prefix of every description of the tree set in 3 layouts
	depth := 1
	if tier != "quick" {
		depth = 2
	}
	for ti, d := range treeSet(depth) {
		if !r.mine(ti) {
			continue
		}
		if r.expired() {
			return
		}
		r.Scenarios++
		ps := pieces(d)
		gaps := gapsOf(ps)
		layouts := []map[int]string{nil, {}, {}}
		for gi, g := range gaps {
			if fillerOK(g.class, " # c\n", g.prev, g.next) {
				layouts[1][gi] = " # c\n"
			}
			if fillerOK(g.class, "#\n", g.prev, g.next) {
				layouts[2][gi] = "#\n"
			}
		}
		layouts[1][len(gaps)-1] = "# end"
		layouts[2][len(gaps)-1] = "#"
		for _, l := range layouts {
			text := render(ps, l)
			for n := 0; n <= len(text); n++ {
				judge(text[:n])
			}
			// the same text with CRLF line ends, and with a blank behind every '#'
			for _, alt := range []string{strings.ReplaceAll(text, "\n", "\r\n"), strings.ReplaceAll(strings.ReplaceAll(text, "#", "# "), "\n", "\r\n")} {
				if alt == text || len(d.Members) > 10 {
					continue
				}
				for n := 0; n <= len(alt); n++ {
					judge(alt[:n])
				}
			}
			r.Nodes++
		}
	}
	r.sample(map[string]string{"text": "interface a.b\nmethod M() -> (f: ?[]"})
	// (2) all byte strings up to a length over a 14-byte alphabet behind 10 prefixes
	alpha := []byte{'#', '\n', ' ', '(', ')', ':', ',', 'a', 'A', '?', '[', 0, 0xff, '\r'}
	maxLen := 5
	if tier != "quick" {
		maxLen = 6
	}
	prefixes := []string{"", "interface", "interface ", "interface a.b", "interface a.b\n", "interface a.b\ntype", "interface a.b\ntype T ", "interface a.b\nmethod F(", "interface a.b\nmethod F()->", "interface a.b\nerror E", "interface a.b\nmethod F()->()\n"}
	total := 0
	for l := 0; l <= maxLen; l++ {
		n := 1
		for i := 0; i < l; i++ {
			n *= len(alpha)
		}
		for code := 0; code < n; code++ {
			total++
			if !r.mine(total) {
				continue
			}
			if total%8192 == 0 && r.expired() {
				return
			}
			b := make([]byte, l)
			c := code
			for i := 0; i < l; i++ {
				b[i] = alpha[c%len(alpha)]
				c /= len(alpha)
			}
			for _, p := range prefixes {
				judge(p + string(b))
			}
			r.Nodes++
		}
	}
	// (3) the C06 token sequences up to length 3 (shared alphabet), joined by nothing
	nt := len(c06Tokens)
	for l := 1; l <= 3; l++ {
		n := 1
		for i := 0; i < l; i++ {
			n *= nt
		}
		for code := 0; code < n; code++ {
			total++
			if !r.mine(total) {
				continue
			}
			toks := make([]string, l)
			c := code
			for i := 0; i < l; i++ {
				toks[i] = c06Tokens[c%nt]
				c /= nt
			}
			judge("interface a.b\n" + strings.Join(toks, ""))
			judge("interface a.b\nmethod F()->()\n" + strings.Join(toks, " "))
		}
	}
	// (4) depth bombs at the 64 KiB bound
	if r.mine(0) {
		bombs := []string{
			"interface a.b\ntype T " + strings.Repeat("[]", 32000),
			"interface a.b\ntype T " + strings.Repeat("[]", 32000) + "int\nmethod F()->()",
			"interface a.b\ntype T " + strings.Repeat("(a:", 21000),
			"interface a.b\ntype T " + strings.Repeat("(a:", 16000) + "int" + strings.Repeat(")", 16000) + "\nmethod F()->()",
			"interface a.b\ntype T " + strings.Repeat("[string]", 8000) + "int",
			"interface a.b\ntype T " + strings.Repeat("?[]", 21000) + "int\nmethod F()->()",
			"interface a.b\n#" + strings.Repeat("c", 65000),
			"interface a.b\n" + strings.Repeat("#", 65000),
			"interface a.b\n" + strings.Repeat("#\n", 32000) + "method F()->()",
			strings.Repeat("#", 65535),
			"interface " + strings.Repeat("a.", 32000) + "b\nmethod F()->()",
			"interface a.b\nmethod F(" + strings.Repeat("a:int,", 10000) + "b:int)->()",
			"interface a.b\n" + strings.Repeat("error E\n", 8000) + "method F()->()",
			strings.Repeat("\x00", 65536), strings.Repeat("\xff", 65536), strings.Repeat(" ", 65536), strings.Repeat("(", 65536),
		}
		// shared sub-structure: every layer refers to the next one several times (2^60 paths through 61 types);
		// long reference chains; self and mutual references
		dag := func(layers, fan int, wrap string) string {
			var sb strings.Builder
			sb.WriteString("interface a.b\n")
			for i := 0; i < layers; i++ {
				fmt.Fprintf(&sb, "type L%d (", i)
				for f := 0; f < fan; f++ {
					if f > 0 {
						sb.WriteString(", ")
					}
					fmt.Fprintf(&sb, "f%d: %sL%d", f, wrap, i+1)
				}
				sb.WriteString(")\n")
			}
			fmt.Fprintf(&sb, "type L%d (value: int)\nmethod F(x: L0) -> (y: L0)\nerror E (z: L0)\n", layers)
			return sb.String()
		}
		bombs = append(bombs, dag(60, 2, ""), dag(40, 3, ""), dag(60, 2, "[]"), dag(60, 2, "?"), dag(60, 2, "[string]"), dag(3000, 1, ""),
			"interface a.b\ntype A (a: ?A, b: []A, c: [string]A)\nmethod F(x: A) -> ()",
			"interface a.b\ntype A (b: ?B)\ntype B (a: []A, b: ?B)\nmethod F(x: A, y: B) -> ()")
		for _, b := range bombs {
			judge(b)
		}
		// name cycles among the type definitions (a type named by itself, two and three types naming each other), used
		// through every constructor at every position, definitions before and after the use
		cyc := [][]string{{"type T T"}, {"type T ?T"}, {"type T []T"}, {"type T [string]T"}, {"type A B", "type B A"}, {"type A B", "type B C", "type C A"}, {"type A ?B", "type B A"}, {"type A (a: A)"}, {"type A (b: B)", "type B A"}}
		for _, defs := range cyc {
			name := strings.Fields(defs[0])[1]
			for _, wrap := range []string{"", "?", "[]", "[string]", "?[]", "[]?", "?[string]"} {
				for _, use := range []string{"method F(x: %s) -> ()", "method F() -> (x: %s)", "error E (x: %s)", "type U (x: %s)\nmethod F(u: U) -> ()", "method F() -> ()"} {
					u := strings.ReplaceAll(use, "\\n", "\n")
					if strings.Contains(u, "%s") {
						u = fmt.Sprintf(u, wrap+name)
					}
					d := strings.Join(defs, "\n")
					judge("interface a.b\n" + d + "\n" + u + "\n")
					judge("interface a.b\n" + u + "\n" + d + "\n")
				}
			}
		}
	}
	// (5) documentation blocks: every sequence of <=3 (thorough 4) comment lines over 9 line forms (bare '#', text flush /
	// indented / behind a tab, blanks only, indented '#', a second '#') above each kind of member, LF and CRLF, and every
	// byte-prefix of the shorter ones
	docAlpha := []string{"#", "# x", "#   x", "#\tx", "#  ", "  # x", "#x", "##", "#     y z"}
	docLen := 3
	if tier != "quick" {
		docLen = 4
	}
	hosts := []string{"%sinterface a.b\nmethod F() -> ()\n", "interface a.b\n%smethod F() -> ()\n", "interface a.b\n%stype T (a: int)\nmethod F() -> ()\n", "interface a.b\nmethod F() -> ()\n%serror E (a: int)\n", "interface a.b\nmethod F() -> ()\n%s"}
	for l := 1; l <= docLen; l++ {
		n := 1
		for i := 0; i < l; i++ {
			n *= len(docAlpha)
		}
		for code := 0; code < n; code++ {
			total++
			if !r.mine(total) {
				continue
			}
			var blk strings.Builder
			c := code
			for i := 0; i < l; i++ {
				blk.WriteString(docAlpha[c%len(docAlpha)])
				blk.WriteString("\n")
				c /= len(docAlpha)
			}
			for _, h := range hosts {
				text := fmt.Sprintf(h, blk.String())
				judge(text)
				judge(strings.ReplaceAll(text, "\n", "\r\n"))
				if l <= 2 {
					for k := 0; k < len(text); k++ {
						judge(text[:k])
					}
				}
			}
			r.Nodes++
		}
	}
	r.MaxBound = maxLen
}

func init() {
	props["C05"] = propFn{run: runC05, replay: func(raw json.RawMessage) (string, string) {
		var in c05Input
		json.Unmarshal(raw, &in)
		return judgeC05(in)
	}, rule: "bounded-exhaustive: every description of a tree set (type expressions of depth <=2 (thorough 3) over all 11 constructors at 5 positions; all member-list shapes of <=3 members; 5 interface-name forms) is rendered in the default layout, with every single gap (thorough: every pair of gaps for small trees) set to every non-default filler from {empty, space, tab, CRLF, LF, blank line, trailing comment, empty comment, comment without space, two comment lines, mixed blanks} that the grammar permits at that gap, with 5 end-of-input forms, and with comment blocks above the interface and every member (7 block shapes x 3 indents x LF/CRLF); the parser's result is compared node by node with the generated tree; states = distinct (tree, gap) positions, transitions = input bytes parsed, distinct_nontrivial = distinct (verdict, layout class) outcomes",
		assume: []string{"strict grammar S as written in DESIGN.md (alias bodies are structs/enums, method parameters structs, members on their own lines, no gap inside or after prefix operators)", "documentation is judged only when the comment block stands on its own lines directly above the member keyword"}}
	props["C06"] = propFn{run: runC06, replay: func(raw json.RawMessage) (string, string) {
		var s string
		json.Unmarshal(raw, &s)
		return judgeC06(s)
	}, rule: "bounded-exhaustive: all token sequences of length <=4 (thorough <=5, and 6 over a 12-token sub-alphabet) over 23 tokens appended to 'interface a.b', joined by a space and by nothing; every single-token deletion, substitution, insertion (18 tokens, with and without a space), adjacent transposition and duplication of every default-layout description of the tree set, duplicated members and 10 kinds of trailing garbage; oracle: whenever accepted, the re-printed tree equals the input up to whitespace/comments, the tree satisfies the structural invariants, member names are unique, a method exists, and the independent liberal recogniser L accepts; an error never comes with a tree",
		assume: []string{"liberal grammar L (DESIGN.md): gaps between any two tokens, any alphanumeric member and type names; inputs in L but outside the strict grammar are unspecified for acceptance but must still round-trip if accepted"}}
	props["C09"] = propFn{run: runC09, replay: func(raw json.RawMessage) (string, string) {
		var s string
		json.Unmarshal(raw, &s)
		return judgeC09(s)
	}, rule: "bounded-exhaustive: every byte-prefix of every description of the tree set in 3 layouts (default, trailing comments at every gap, empty comments at every gap, ending inside a comment), each also with CRLF line ends and with a blank behind every '#'; every byte string of length <=4 (thorough <=6) over {#, LF, CR, space, (, ), :, comma, a, A, ?, [, NUL, 0xff} behind 11 prefixes; token sequences <=3; 25 depth/size/sharing bombs (64 KiB nesting and runs, alias graphs with 2^60 paths, 3000-long reference chains, recursive aliases); oracle: returns exactly one of tree/error under recover, a watchdog reports an input that makes no progress for 120 s",
		assume: []string{"not all byte strings up to 64 KiB: an alphabet containing every terminal of the grammar plus garbage bytes, and all truncations of a bounded-exhaustive positive set"}}
}
