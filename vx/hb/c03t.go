package main

// C03, real-transport stage: the same documents travel over the transports the library offers - unix
// socket in the filesystem, abstract unix socket, TCP loopback, and the bridge (a child process whose
// stdin/stdout carry the protocol) - between the library's client and the library's service. The OS
// schedules these runs; only schedule-independent outcomes (values, order, continues flags) are judged,
// the only clock is a 60 s watchdog that classifies a run as inconclusive.

import (
	"bytes"
	"context"
	"encoding/json"
	"fmt"
	"io"
	"net"
	"os"
	"reflect"
	"strconv"
	"strings"
	"sync/atomic"
	"time"

	"github.com/varlink/go/varlink"
)

func rawJSONEqualB(a, b []byte) bool {
	da := json.NewDecoder(bytes.NewReader(a))
	da.UseNumber()
	db := json.NewDecoder(bytes.NewReader(b))
	db.UseNumber()
	var va, vb interface{}
	if da.Decode(&va) != nil || db.Decode(&vb) != nil {
		return false
	}
	return reflect.DeepEqual(va, vb)
}

var c03tLeaves = []string{`null`, `true`, `0`, `-0`, `-1`, `9007199254740993`, `18446744073709551616`, `1.5`, `1E+2`, `1e-7`, `""`, `"é\u0000😀"`, `{}`, `[]`}

func c03tDocs(tier string) []string {
	vals := append([]string(nil), c03tLeaves...)
	for _, v := range c03tLeaves {
		vals = append(vals, "["+v+"]", `{"k":`+v+`}`, "["+v+",1]")
	}
	docs := []string{`{}`}
	for _, k := range []string{`"a"`, `"é"`, `""`} {
		for _, v := range vals {
			docs = append(docs, "{"+k+":"+v+"}")
			if tier == "thorough" {
				for _, w := range c03tLeaves {
					docs = append(docs, "{"+k+":"+v+`,"z":`+w+"}")
				}
			}
		}
	}
	// sizes around the pipe and socket buffer sizes
	for _, n := range []int{4095, 4096, 4097, 65535, 65536, 70000, 300000} {
		docs = append(docs, `{"s":"`+strings.Repeat("x", n)+`","n":9007199254740993}`)
	}
	return docs
}

func c03tDir() string { return fmt.Sprintf("c03t-%d", *flagShard) }

type c03tEcho struct {
	got     []string
	seq     []string
	handled atomic.Int64 // calls whose parameters the handler has read (oneway calls have no reply to wait for)
}

func (e *c03tEcho) VarlinkGetName() string        { return "t.r" }
func (e *c03tEcho) VarlinkGetDescription() string { return "interface t.r" }
func (e *c03tEcho) VarlinkDispatch(ctx context.Context, c varlink.Call, method string) error {
	var raw json.RawMessage
	if err := c.GetParameters(&raw); err != nil {
		e.got = append(e.got, "ERR:"+err.Error())
	} else {
		e.got = append(e.got, string(raw))
		// reading is not consuming: a second look at the same call (a generic front end decodes, then the typed
		// handler does) yields the same parameters
		var again json.RawMessage
		c2 := c
		if err := c2.GetParameters(&again); err != nil || string(again) != string(raw) {
			e.got = append(e.got, fmt.Sprintf("SECOND-READ-DIFFERS: %s (err %v)", string(again), err))
		}
	}
	e.handled.Add(1)
	switch method {
	case "Echo":
		return c.Reply(ctx, raw)
	case "More":
		var in struct {
			Seq []string `json:"seq"`
		}
		json.Unmarshal(raw, &in)
		for i, d := range in.Seq {
			c.Continues = i < len(in.Seq)-1
			var params interface{} = json.RawMessage(d)
			if d == "<none>" {
				params = nil
			}
			if err := c.Reply(ctx, params); err != nil {
				return err
			}
			var after json.RawMessage
			if err := c.GetParameters(&after); err != nil || string(after) != string(raw) {
				e.got = append(e.got, fmt.Sprintf("READ-AFTER-REPLY-DIFFERS: %s (err %v)", string(after), err))
			}
		}
		return nil
	}
	return c.ReplyMethodNotFound(ctx, method)
}

// helper "c03proxy <network> <address>": stdin/stdout <-> socket (what a bridge command such as ssh does)
func c03Proxy(args []string) int {
	if len(args) < 2 {
		return 2
	}
	c, err := net.Dial(args[0], args[1])
	if err != nil {
		fmt.Fprintln(os.Stderr, "c03proxy:", err)
		return 1
	}
	done := make(chan struct{}, 2)
	delay := time.Duration(0)
	if len(args) > 2 {
		// a slow link: what arrives on stdin is forwarded only after a pause (as a bridge over a network would)
		if ms, err := strconv.Atoi(args[2]); err == nil {
			delay = time.Duration(ms) * time.Millisecond
		}
	}
	go func() {
		buf := make([]byte, 64<<10)
		for {
			n, err := os.Stdin.Read(buf)
			if n > 0 {
				time.Sleep(delay)
				c.Write(buf[:n])
			}
			if err != nil {
				break
			}
		}
		c.(interface{ CloseWrite() error }).CloseWrite()
		done <- struct{}{}
	}()
	go func() { io.Copy(os.Stdout, c); done <- struct{}{} }()
	<-done
	<-done
	return 0
}

// helper "c03oneshot": a varlink service on stdin/stdout that answers exactly one call with the more-sequence it
// asks for, flushes and exits at once (a one-shot bridged service: the process is gone before the client reads)
func c03OneShot(args []string) int {
	svc, _ := varlink.NewService("v", "p", "1", "u")
	svc.RegisterInterface(&c03tEcho{})
	rd := make([]byte, 0, 1<<20)
	buf := make([]byte, 65536)
	for {
		n, err := os.Stdin.Read(buf)
		rd = append(rd, buf[:n]...)
		if i := bytes.IndexByte(rd, 0); i >= 0 {
			w := &stdioWriter{}
			svc.HandleMessage(context.Background(), w, rd[:i])
			return 0
		}
		if err != nil {
			return 1
		}
	}
}

type stdioWriter struct{}

func (stdioWriter) Write(ctx context.Context, b []byte) (int, error) { return os.Stdout.Write(b) }
func (stdioWriter) Read(ctx context.Context, b []byte) (int, error)  { return 0, io.EOF }
func (stdioWriter) ReadBytes(ctx context.Context, d byte) ([]byte, error) {
	return nil, io.EOF
}

type c03tInput struct {
	Transport string   `json:"transport"`
	Kind      string   `json:"kind"` // docs | more
	Docs      []string `json:"docs,omitempty"`
	Seq       []string `json:"seq,omitempty"`
}

// c03tRun executes one batch on one transport; "" or a violation message; infra=true when the environment failed.
func c03tRun(in c03tInput) (msg, key string, infra bool, cases int) {
	ctx, cancel := context.WithTimeout(context.Background(), 120*time.Second)
	defer cancel()
	svc, _ := varlink.NewService("v", "p", "1", "u")
	echo := &c03tEcho{}
	svc.RegisterInterface(echo)
	tag := fmt.Sprintf("vx03-%d-%d", os.Getpid(), time.Now().UnixNano())
	var addr, network, sockaddr string
	var conn *varlink.Connection
	var err error
	marker := ""
	done := make(chan error, 1)
	needService := in.Transport != "bridge-oneshot"
	switch in.Transport {
	case "unix":
		os.MkdirAll(c03tDir(), 0o755)
		sockaddr = c03tDir() + "/" + tag[len(tag)-12:] + ".sock"
		network, addr = "unix", "unix:"+sockaddr
	case "abstract", "bridge", "bridge-slow":
		sockaddr = "@" + tag
		network, addr = "unix", "unix:@"+tag
	case "tcp":
		p := freePort()
		sockaddr = fmt.Sprintf("127.0.0.1:%d", p)
		network, addr = "tcp", "tcp:"+sockaddr
	case "tcp6", "tcp-name":
		// an IPv6 literal in brackets; a host name instead of a literal
		host := "[::1]"
		if in.Transport == "tcp-name" {
			host = "localhost"
		}
		l, lerr := net.Listen("tcp", host+":0")
		if lerr != nil {
			return "", "", false, 0 // (runC03T lists these transports only where the host exists)
		}
		p := l.Addr().(*net.TCPAddr).Port
		l.Close()
		sockaddr = fmt.Sprintf("%s:%d", host, p)
		network, addr = "tcp", "tcp:"+sockaddr
	}
	if needService {
		go func() { done <- svc.Listen(context.Background(), addr, 0) }()
		deadline := time.Now().Add(30 * time.Second)
		for {
			if l, _ := svc.GetListener(); l != nil {
				break
			}
			select {
			case e := <-done:
				return "service did not start: " + fmt.Sprint(e), "infra", true, 0
			default:
			}
			if time.Now().After(deadline) {
				return "service did not start within 30 s", "infra", true, 0
			}
			time.Sleep(50 * time.Microsecond)
		}
		defer func() {
			svc.Shutdown()
			select {
			case <-done:
			case <-time.After(30 * time.Second):
			}
		}()
	}
	switch in.Transport {
	case "bridge":
		conn, err = varlink.NewBridgeWithStderr(fmt.Sprintf("exec %s -helper c03proxy %s %s", os.Args[0], network, sockaddr), io.Discard)
	case "bridge-slow":
		conn, err = varlink.NewBridgeWithStderr(fmt.Sprintf("exec %s -helper c03proxy %s %s 300", os.Args[0], network, sockaddr), io.Discard)
	case "bridge-oneshot":
		os.MkdirAll(c03tDir(), 0o755)
		marker = c03tDir() + "/" + tag + ".exited"
		conn, err = varlink.NewBridgeWithStderr(fmt.Sprintf("%s -helper c03oneshot; : > %s", os.Args[0], marker), io.Discard)
	default:
		conn, err = varlink.NewConnection(ctx, addr)
	}
	if err != nil {
		if needService && !strings.HasPrefix(in.Transport, "bridge") {
			// is it the environment? a plain dial of the same socket address tells
			if pc, perr := net.DialTimeout(network, strings.Trim(sockaddr, "[]"), 5*time.Second); perr == nil {
				pc.Close()
				return fmt.Sprintf("%s: the service listens on %s (a plain dial of %s connects) but NewConnection(%q) failed: %v", in.Transport, addr, sockaddr, addr, err), "symptom=cannot-connect transport=" + in.Transport, false, 0
			} else if pc, perr := net.DialTimeout(network, sockaddr, 5*time.Second); perr == nil {
				pc.Close()
				return fmt.Sprintf("%s: the service listens on %s (a plain dial of %s connects) but NewConnection(%q) failed: %v", in.Transport, addr, sockaddr, addr, err), "symptom=cannot-connect transport=" + in.Transport, false, 0
			}
		}
		return "cannot connect over " + in.Transport + ": " + err.Error(), "infra", true, 0
	}
	defer conn.Close()
	timedOut := func(e error) bool { return ctx.Err() != nil }
	switch in.Kind {
	case "docs":
		for i, doc := range in.Docs {
			echo.got = echo.got[:0]
			var out json.RawMessage
			var err error
			if i == 1 {
				// a call without a parameters member behind one that had them
				echo.got = echo.got[:0]
				var outn json.RawMessage
				nctx, ncancel := context.WithCancel(context.Background())
				wd := time.AfterFunc(60*time.Second, ncancel)
				// (this context has no deadline: whatever deadline an earlier operation armed on the transport is over)
				recvn, err := conn.Send(nctx, "t.r.Echo", nil, 0)
				if err == nil {
					_, err = recvn(nctx, &outn)
				}
				wd.Stop()
				ncancel()
				cases++
				if err != nil || len(echo.got) != 1 || !(strings.HasPrefix(echo.got[0], "ERR:") || echo.got[0] == "null" || echo.got[0] == "{}") {
					return fmt.Sprintf("%s: a call without parameters under a context without deadline (after a call with %s under a 150 ms deadline that was met, 300 ms earlier): the handler read %s, err %v", in.Transport, short(in.Docs[0]), short(strings.Join(echo.got, "|")), err), "symptom=call-without-parameters transport=" + in.Transport, false, cases
				}
				echo.got = echo.got[:0]
			}
			if i == len(in.Docs)-1 {
				// the last document travels oneway and the client closes at once: the handler still reads it
				before := echo.handled.Load()
				if _, err = conn.Send(ctx, "t.r.Echo", json.RawMessage(doc), varlink.Oneway); err != nil {
					return fmt.Sprintf("%s: oneway Send of %s failed: %v", in.Transport, short(doc), err), "symptom=call-failed transport=" + in.Transport, false, cases
				}
				conn.Close()
				for t0 := time.Now(); echo.handled.Load() == before; time.Sleep(200 * time.Microsecond) {
					if time.Since(t0) > 30*time.Second {
						return fmt.Sprintf("%s: document %s sent oneway (then Close) never reached the handler", in.Transport, short(doc)), "symptom=oneway-call-lost transport=" + in.Transport, false, cases
					}
				}
				cases++
				if len(echo.got) != 1 || !rawJSONEqualB([]byte(echo.got[0]), []byte(doc)) {
					return fmt.Sprintf("%s: document %s sent oneway: the handler read %s", in.Transport, short(doc), short(strings.Join(echo.got, "|"))), "symptom=value-changed transport=" + in.Transport, false, cases
				}
				continue
			}
			if i == 0 && len(in.Docs) > 2 {
				// the first call runs under a short deadline that it meets; the next operation comes after that instant
				dctx, dcancel := context.WithTimeout(ctx, 150*time.Millisecond)
				err = conn.Call(dctx, "t.r.Echo", json.RawMessage(doc), &out)
				dcancel()
				if err == nil {
					time.Sleep(300 * time.Millisecond)
				} else if dctx.Err() != nil {
					return "the first call did not finish within its 150 ms deadline", "infra", true, cases
				}
			} else if i%2 == 0 {
				err = conn.Call(ctx, "t.r.Echo", json.RawMessage(doc), &out)
			} else {
				var recv func(context.Context, interface{}) (uint64, error)
				// every other Send runs under its own context, cancelled once Send has returned (a per-operation
				// timeout helper does this); the receive is governed by the context it is given
				sctx, scancel := ctx, context.CancelFunc(func() {})
				if i%4 == 3 {
					sctx, scancel = context.WithCancel(ctx)
				}
				recv, err = conn.Send(sctx, "t.r.Echo", json.RawMessage(doc), 0)
				scancel()
				if err == nil {
					_, err = recv(ctx, &out)
				}
			}
			cases++
			if err != nil {
				if timedOut(err) {
					return "watchdog", "infra", true, cases
				}
				return fmt.Sprintf("%s: document %s: call failed: %v", in.Transport, short(doc), err), "symptom=call-failed transport=" + in.Transport, false, cases
			}
			if len(echo.got) != 1 || !rawJSONEqualB([]byte(echo.got[0]), []byte(doc)) {
				return fmt.Sprintf("%s: document %s: the handler read %s", in.Transport, short(doc), short(strings.Join(echo.got, "|"))), "symptom=value-changed transport=" + in.Transport, false, cases
			}
			if !rawJSONEqualB(out, []byte(doc)) {
				return fmt.Sprintf("%s: document %s replied by the handler arrived at the client as %s", in.Transport, short(doc), short(string(out))), "symptom=value-changed transport=" + in.Transport, false, cases
			}
		}
	case "more":
		params, _ := json.Marshal(map[string]interface{}{"seq": in.Seq})
		sctx, scancel := context.WithCancel(ctx)
		recv, err := conn.Send(sctx, "t.r.More", json.RawMessage(params), varlink.More)
		scancel() // the Send is over: the replies are received under ctx
		if err != nil {
			return fmt.Sprintf("%s: Send(More): %v", in.Transport, err), "symptom=call-failed transport=" + in.Transport, false, 0
		}
		if in.Transport == "bridge-oneshot" {
			// let the one-shot service finish and exit before the first reply is read
			// (it blocks instead when its replies exceed the pipe capacity; then the marker never appears before we read)
			for t0 := time.Now(); time.Since(t0) < 2*time.Second; time.Sleep(time.Millisecond) {
				if _, err := os.Stat(marker); err == nil {
					time.Sleep(100 * time.Millisecond) // detection aid only: gives a background reaper time to run
					break
				}
			}
			os.Remove(marker)
		}
		for i, want := range in.Seq {
			var out json.RawMessage
			fl, err := recv(ctx, &out)
			cases++
			if err != nil {
				if timedOut(err) {
					return "watchdog", "infra", true, cases
				}
				return fmt.Sprintf("%s: more-sequence of %d: receive %d failed: %v", in.Transport, len(in.Seq), i, err), "symptom=more-reply-lost transport=" + in.Transport, false, cases
			}
			if want == "<none>" {
				if len(out) != 0 && string(out) != "null" {
					return fmt.Sprintf("%s: reply %d carries no parameters but arrived as %s", in.Transport, i, short(string(out))), "symptom=value-changed transport=" + in.Transport, false, cases
				}
			} else if !rawJSONEqualB(out, []byte(want)) {
				return fmt.Sprintf("%s: more-sequence: reply %d arrived as %s, sent %s", in.Transport, i, short(string(out)), short(want)), "symptom=value-changed transport=" + in.Transport, false, cases
			}
			if (fl&varlink.Continues != 0) != (i < len(in.Seq)-1) {
				return fmt.Sprintf("%s: more-sequence: reply %d of %d has continues=%v", in.Transport, i+1, len(in.Seq), fl&varlink.Continues != 0), "symptom=continues-flag transport=" + in.Transport, false, cases
			}
		}
	}
	return "", "", false, cases
}

func runC03T(tier string, r *Result) {
	docs := c03tDocs(tier)
	var inputs []c03tInput
	transports := []string{"unix", "abstract", "tcp", "bridge"}
	const batch = 40
	for _, tr := range transports {
		for from := 0; from < len(docs); from += batch {
			inputs = append(inputs, c03tInput{Transport: tr, Kind: "docs", Docs: docs[from:min(from+batch, len(docs))]})
		}
	}
	// TCP addresses other than an IPv4 literal (where this machine has them)
	for _, tr := range []string{"tcp6", "tcp-name"} {
		host := map[string]string{"tcp6": "[::1]", "tcp-name": "localhost"}[tr]
		if l, err := net.Listen("tcp", host+":0"); err == nil {
			l.Close()
			inputs = append(inputs, c03tInput{Transport: tr, Kind: "docs", Docs: docs[:min(batch, len(docs))]})
		} else {
			r.Extra["transport_unavailable_"+tr]++
		}
	}
	// a bridge that forwards with a delay: a oneway call, then Close at once - what Send reported as written still arrives
	inputs = append(inputs, c03tInput{Transport: "bridge-slow", Kind: "docs", Docs: []string{`{"i":1,"n":9007199254740993}`}},
		c03tInput{Transport: "bridge-slow", Kind: "docs", Docs: []string{`{"a":1}`, `{"s":"` + strings.Repeat("z", 100000) + `"}`}})
	pool := []string{`{"i":1}`, `{"n":9007199254740993}`, `{"s":"é\u0000"}`, `{}`, `<none>`}
	var seqs [][]string
	for _, a := range pool {
		seqs = append(seqs, []string{a})
		for _, b := range pool {
			seqs = append(seqs, []string{a, b})
			for _, c := range pool {
				seqs = append(seqs, []string{a, b, c})
			}
		}
	}
	// long sequences: more bytes than a pipe or socket buffer holds
	long := func(n, size int) []string {
		var s []string
		for i := 0; i < n; i++ {
			s = append(s, fmt.Sprintf(`{"i":%d,"n":9007199254740993,"s":"%s😀"}`, i, strings.Repeat("y", size)))
		}
		return s
	}
	seqs = append(seqs, long(40, 100), long(40, 5000), long(300, 1000), long(3, 200000))
	for _, tr := range append(transports, "bridge-oneshot") {
		for _, sq := range seqs {
			inputs = append(inputs, c03tInput{Transport: tr, Kind: "more", Seq: sq})
		}
	}
	defer os.RemoveAll(c03tDir())
	for i, in := range inputs {
		if !r.mine(i) || r.expired() {
			continue
		}
		r.note(in)
		msg, key, infra, cases := c03tRun(in)
		r.Executions++
		r.Nodes++
		r.Steps += cases
		r.Extra["input_cases_judged"] += cases
		if infra {
			r.Extra["inconclusive_environment"]++
			r.outcome("inconclusive " + in.Transport + ": " + msg)
			continue
		}
		if msg != "" {
			r.outcome("violation " + key)
			small := in
			if len(small.Docs) > 3 {
				small.Docs = small.Docs[:3]
			}
			if len(small.Seq) > 4 {
				small.Seq = small.Seq[:4]
			}
			r.violation(key, msg, in)
			continue
		}
		r.outcome("ok " + in.Transport + " " + in.Kind)
	}
	r.Extra["real_transport_batches"] = len(inputs)
}

func init() {
	helpers["c03proxy"] = c03Proxy
	helpers["c03oneshot"] = c03OneShot
	props["C03"] = propFn{run: runC03T, replay: func(raw json.RawMessage) (string, string) {
		var in c03tInput
		json.Unmarshal(raw, &in)
		msg, key, infra, _ := c03tRun(in)
		if infra {
			return "", ""
		}
		return msg, key
	}, rule: "real-transport stage: ~180 JSON documents (thorough ~2,500; incl. payloads of 4095..300000 bytes) by Call and Send+receive, and every more-sequence of length 1..3 over 5 reply kinds (incl. a reply without parameters) plus 4 long sequences, over a unix socket in the filesystem, an abstract unix socket, TCP loopback and the bridge (child process proxying stdin/stdout to the service socket), and over a one-shot bridged service that exits before the client reads; library client against library service; raw-JSON equality, order and continues flags",
		assume: []string{"the OS schedules these runs: only schedule-independent outcomes are judged; a 120 s watchdog classifies a run as inconclusive"}}
}
