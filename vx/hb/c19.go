package main

// C19 - address strings are handled totally and consistently.
//
// Explicit enumeration of operation histories on one real Service object over an address-string
// alphabet, against a 20-line reference classifier that restates the property. The endpoints are real
// kernel objects (unix sockets in a private directory, abstract sockets with per-execution names, TCP
// loopback ports); every oracle clause is about a state reached after a join, so no schedule control
// is needed (DESIGN.md §C19).

import (
	"context"
	"encoding/json"
	"fmt"
	"net"
	"os"
	"path/filepath"
	"strings"
	"sync/atomic"
	"syscall"
	"time"

	"github.com/varlink/go/varlink"
)

// ---- reference classifier (restates the property text) ----

type addrClass struct {
	Refuse   bool   // the service must refuse the string
	Proto    string // unix | tcp
	Addr     string // what both sides must use: text between the first ':' and the first ';'
	Abstract bool
	FsPath   bool
}

func refAddr(s string) addrClass {
	parts := strings.SplitN(s, ":", 2)
	if len(parts) < 2 {
		return addrClass{Refuse: true}
	}
	proto, rest := parts[0], parts[1]
	if i := strings.IndexByte(rest, ';'); i >= 0 {
		rest = rest[:i]
	}
	if proto != "unix" && proto != "tcp" {
		return addrClass{Refuse: true}
	}
	if proto == "unix" && rest == "" {
		return addrClass{Refuse: true}
	}
	c := addrClass{Proto: proto, Addr: rest}
	if proto == "unix" {
		c.Abstract = rest[0] == '@'
		c.FsPath = !c.Abstract
	}
	return c
}

// ---- alphabet ----

// An address template; {ABS} = private absolute directory, {AN} = per-history abstract name,
// {PORT} = per-history free TCP port. good: on a fresh service with the endpoint free the bind must succeed.
type addrT struct {
	T    string
	Good bool
	Base bool // member of the plain grammar product (no whitespace / doubled-colon variant, no token sequence)
	Tok  bool // token sequence
	NTok int  // number of tokens of a token sequence
}

func c19Strings(tier string) []addrT {
	protos := []string{"unix", "tcp", "foo", "", "\x00none", "UNIX", "tcp4", "unixpacket", "unixgram", "udp"}
	type restT struct {
		r          string
		unix, tcp  bool // good for that protocol
	}
	rests := []restT{
		{"", false, false}, {"@", false, false}, {"@{AN}", true, false}, {"rel.sock", true, false}, {"./d/rel.sock", true, false},
		{"{ABS}/a.sock", true, false}, {"{ABS}/missing/a.sock", false, false},
		{"127.0.0.1:{PORT}", false, true}, {"127.0.0.1:0", false, true}, {":0", false, true}, {"[::1]:0", false, false},
		{"localhost", false, false}, {"127.0.0.1", false, false}, {"localhost:{PORT}", false, false}, {"é.sock", true, false},
		{"@{AN}/x y", true, false},
	}
	tails := []string{"", ";", ";mode=0600", ";a;b", ";@x", ";unix:@y", ";:"}
	var out []addrT
	seen := map[string]bool{}
	isBase, isTok, nTok := false, false, 0
	add := func(t string, good bool) {
		if !seen[t] {
			seen[t] = true
			out = append(out, addrT{t, good, isBase, isTok, nTok})
		}
	}
	for _, p := range protos {
		for _, r := range rests {
			for _, tl := range tails {
				var base string
				if p == "\x00none" {
					base = r.r + tl // no "<protocol>:" prefix written by us (the rest may contain a colon of its own)
				} else {
					base = p + ":" + r.r + tl
				}
				good := (p == "unix" && r.unix) || (p == "tcp" && r.tcp)
				isBase = true
				add(base, good)
				isBase = false
				add(" "+base, false)
				if p != "\x00none" {
					add(p+"::"+r.r+tl, false)
					add(p+" :"+r.r+tl, false)
					add(p+": "+r.r+tl, false)
				}
			}
		}
	}
	// all token sequences up to a length ("random strings" of the property, made exhaustive)
	toks := []string{"unix", "tcp", ":", ";", "@", "a", ".", "{ABS}/", " ", "127.0.0.1", "0"}
	n := 4
	if tier == "thorough" {
		n = 5
	}
	var rec func(prefix string, k int)
	rec = func(prefix string, k int) {
		nTok = n - k
		add(prefix, false)
		if k == 0 {
			return
		}
		for _, t := range toks {
			rec(prefix+t, k-1)
		}
	}
	isTok = true
	rec("", n)
	return out
}

// ---- execution world ----

type c19World struct {
	dir    string // private directory, also cwd of this shard
	an     string // abstract name of this history
	port   int
	leaked []net.Listener
	ctr    *int64
}

var c19Counter int64

func freePort() int {
	for i := 0; i < 50; i++ {
		l, err := net.Listen("tcp", "127.0.0.1:0")
		if err != nil {
			continue
		}
		p := l.Addr().(*net.TCPAddr).Port
		l.Close()
		// also free on the wildcard address?
		l2, err := net.Listen("tcp", fmt.Sprintf(":%d", p))
		if err != nil {
			continue
		}
		l2.Close()
		return p
	}
	return 0
}

func (w *c19World) inst(t string) string {
	if w.port == 0 && strings.Contains(t, "{PORT}") {
		w.port = freePort()
	}
	s := strings.ReplaceAll(t, "{ABS}", w.dir+"/abs")
	s = strings.ReplaceAll(s, "{AN}", w.an)
	s = strings.ReplaceAll(s, "{PORT}", fmt.Sprint(w.port))
	return s
}

func (w *c19World) reset() {
	// a clean private directory (the code under test may remove or create entries in it)
	os.RemoveAll(w.dir + "/abs")
	entries, _ := os.ReadDir(w.dir)
	for _, e := range entries {
		if e.Name() != "abs" {
			os.RemoveAll(filepath.Join(w.dir, e.Name()))
		}
	}
	os.MkdirAll(w.dir+"/abs", 0o755)
	os.MkdirAll(w.dir+"/d", 0o755)
	n := atomic.AddInt64(&c19Counter, 1)
	w.an = fmt.Sprintf("vx19-%d-%d", os.Getpid(), n)
	w.port = 0
	w.leaked = nil
}

func (w *c19World) cleanup() {
	for _, l := range w.leaked {
		if ul, ok := l.(*net.UnixListener); ok {
			ul.SetUnlinkOnClose(false)
		}
		l.Close()
	}
	w.leaked = nil
}

// One operation of a history.
type c19Op struct {
	Op   string `json:"op"`             // bind | serve | shutdown | dial
	Addr string `json:"addr,omitempty"` // template
	Pre  string `json:"pre,omitempty"`  // pre-state of the filesystem path: "", stale, file, dir
}

type c19Input struct {
	Hist []c19Op `json:"history"`
}

type c19Model struct {
	bound    bool // a listener installed by a successful bind is still open
	endpoint string
}

func callNoPanic(f func() error) (err error, panicked string) {
	defer func() {
		if p := recover(); p != nil {
			panicked = fmt.Sprint(p)
		}
	}()
	return f(), ""
}

func endpointOf(c addrClass) string { return c.Proto + ":" + c.Addr }

func isSocket(path string) bool {
	fi, err := os.Lstat(path)
	return err == nil && fi.Mode()&os.ModeSocket != 0
}

// mkPre establishes the pre-state of a filesystem path.
func mkPre(path, pre string) {
	switch pre {
	case "stale":
		l, err := net.Listen("unix", path)
		if err == nil {
			l.(*net.UnixListener).SetUnlinkOnClose(false)
			l.Close()
		}
	case "file":
		os.WriteFile(path, []byte("x"), 0o644)
	case "dir":
		os.Mkdir(path, 0o755)
	}
}

func getInfoProduct(ctx context.Context, c *varlink.Connection) (string, error) {
	var vendor, product, version, url string
	var ifaces []string
	err := c.GetInfo(ctx, &vendor, &product, &version, &url, &ifaces)
	return product, err
}

// runHistory executes one history on a fresh Service; returns "" or (msg,key) of the first violation.
// outcome is a short class string of the last operation for the evidence.
func runHistory(w *c19World, in c19Input) (msg, key, outcome string) {
	w.reset()
	defer w.cleanup()
	product := fmt.Sprintf("P-%s", w.an)
	svc, err := varlink.NewService("vx", product, "1", "u")
	if err != nil {
		return "NewService: " + err.Error(), "infra", ""
	}
	ctx := context.Background()
	var m c19Model
	var outs []string
	defer func() {
		if outcome == "" {
			outcome = strings.Join(outs, ">")
		}
	}()
	fail := func(k, f string, a ...interface{}) (string, string, string) {
		return fmt.Sprintf(f, a...), k, "violation"
	}
	peek := func() net.Listener { l, _ := svc.GetListener(); return l }

	for i, op := range in.Hist {
		s := w.inst(op.Addr)
		cl := refAddr(s)
		where := fmt.Sprintf("step %d %s(%q)", i, op.Op, s)
		switch op.Op {
		case "shutdown":
			_, p := callNoPanic(func() error { return svc.Shutdown() })
			if p != "" {
				return fail("op=Shutdown symptom=panic", "%s panicked: %s", where, p)
			}
			m.bound = false
			outs = append(outs, "shutdown")

		case "dial":
			var conn *varlink.Connection
			dctx, cancel := context.WithTimeout(ctx, 30*time.Second)
			err, p := callNoPanic(func() error { var e error; conn, e = varlink.NewConnection(dctx, s); return e })
			cancel()
			if p != "" {
				return fail("op=NewConnection symptom=panic class="+classKey(s), "%s panicked: %s", where, p)
			}
			if err == nil && conn == nil {
				return fail("op=NewConnection symptom=nil-nil", "%s returned neither a connection nor an error", where)
			}
			if err != nil && conn != nil {
				return fail("op=NewConnection symptom=conn-and-error", "%s returned a connection and an error", where)
			}
			if conn != nil {
				conn.Close()
				outs = append(outs, "dial-ok")
			} else {
				outs = append(outs, "dial-err")
			}

		case "bind":
			if cl.FsPath && op.Pre != "" {
				mkPre(cl.Addr, op.Pre)
			}
			l0 := peek()
			err, p := callNoPanic(func() error { return svc.Bind(ctx, s) })
			if p != "" {
				return fail("op=Bind symptom=panic class="+classKey(s), "%s panicked: %s", where, p)
			}
			l1 := peek()
			if cl.Refuse {
				if err == nil {
					if l1 != nil && l1 != l0 {
						w.leaked = append(w.leaked, l1)
					}
					return fail("op=Bind symptom=accepted-invalid class="+classKey(s), "%s succeeded (listening on %s) although the string must be refused", where, addrOf(l1))
				}
				if l1 != l0 {
					return fail("op=Bind symptom=refused-but-listener-changed", "%s was refused but the installed listener changed", where)
				}
				outs = append(outs, "bind-refused")
				break
			}
			if err != nil {
				if l1 != l0 {
					return fail("op=Bind symptom=failed-but-listener-changed", "%s failed (%v) but the installed listener changed", where, err)
				}
				free := !m.bound || (m.endpoint != endpointOf(cl))
				if mustSucceed(op, in, i) && (free || cl.FsPath) && (op.Pre == "" || op.Pre == "stale") {
					return fail("op=Bind symptom=good-address-failed pre="+op.Pre+" class="+classKey(s), "%s failed with %v although the endpoint is free and the address is well-formed", where, err)
				}
				outs = append(outs, "bind-oserror")
				break
			}
			if l1 == nil || l1 == l0 {
				return fail("op=Bind symptom=success-without-listener", "%s returned nil but installed no new listener", where)
			}
			if l0 != nil && m.bound {
				w.leaked = append(w.leaked, l0) // replaced without being closed; closed by the harness at the end
			}
			if msg := checkBound(l1, cl); msg != "" {
				m.bound, m.endpoint = true, endpointOf(cl)
				w.leaked = append(w.leaked, l1)
				return fail("op=Bind symptom=wrong-endpoint class="+classKey(s), "%s: %s", where, msg)
			}
			m.bound, m.endpoint = true, endpointOf(cl)
			outs = append(outs, "bind-ok")

		case "serve":
			if cl.FsPath && op.Pre != "" {
				mkPre(cl.Addr, op.Pre)
			}
			l0 := peek()
			done := make(chan error, 1)
			var pan atomic.Value
			go func() {
				err, p := callNoPanic(func() error { return svc.Listen(ctx, s, 0) })
				if p != "" {
					pan.Store(p)
				}
				done <- err
			}()
			// wait until Listen has either returned or installed its listener
			var l1 net.Listener
			var lerr error
			returned := false
			deadline := time.Now().Add(60 * time.Second)
			for {
				select {
				case lerr = <-done:
					returned = true
				default:
				}
				if returned {
					break
				}
				if l := peek(); l != nil && l != l0 {
					l1 = l
					break
				}
				if time.Now().After(deadline) {
					return "Listen neither returned nor installed a listener within 60 s: " + where, "infra", ""
				}
				time.Sleep(20 * time.Microsecond)
			}
			if returned {
				if p, _ := pan.Load().(string); p != "" {
					return fail("op=Listen symptom=panic class="+classKey(s), "%s panicked: %s", where, p)
				}
				if lerr == nil {
					return fail("op=Listen symptom=returned-nil-without-serving", "%s returned nil without Shutdown", where)
				}
				if !cl.Refuse {
					free := !m.bound || (m.endpoint != endpointOf(cl))
					if mustSucceed(op, in, i) && (free || cl.FsPath) && (op.Pre == "" || op.Pre == "stale") {
						return fail("op=Listen symptom=good-address-failed pre="+op.Pre+" class="+classKey(s), "%s failed with %v although the endpoint is free and the address is well-formed", where, lerr)
					}
				}
				// a failed Listen must leave the service as it was
				if peek() != l0 {
					return fail("op=Listen symptom=failed-but-listener-changed", "%s failed (%v) but the installed listener changed", where, lerr)
				}
				if cl.Refuse {
					outs = append(outs, "serve-refused")
				} else {
					outs = append(outs, "serve-oserror")
				}
				break
			}
			// serving (or about to): make sure the accept loop runs by a round trip on the listener's own address
			if l0 != nil && m.bound {
				w.leaked = append(w.leaked, l0)
			}
			stop := func() (error, bool) {
				svc.Shutdown()
				select {
				case e := <-done:
					return e, true
				case <-time.After(60 * time.Second):
					return nil, false
				}
			}
			sync, derr := net.Dial(l1.Addr().Network(), l1.Addr().String())
			if derr == nil {
				sc := varlink.VerifNewConnection(sync)
				sctx, cancel := context.WithTimeout(ctx, 30*time.Second)
				_, derr = getInfoProduct(sctx, sc)
				cancel()
				sc.Close()
			}
			if derr != nil {
				stop()
				return "could not reach the listener installed by Listen on its own address: " + derr.Error() + " " + where, "infra", ""
			}
			if cl.Refuse {
				stop()
				return fail("op=Listen symptom=accepted-invalid class="+classKey(s), "%s is serving on %s although the string must be refused", where, addrOf(l1))
			}
			if msg := checkBound(l1, cl); msg != "" {
				stop()
				return fail("op=Listen symptom=wrong-endpoint class="+classKey(s), "%s: %s", where, msg)
			}
			// the same string must reach this service from the client side (the kernel picks port 0)
			if !(cl.Proto == "tcp" && kernelPicksPort(cl.Addr)) {
				var conn *varlink.Connection
				cctx, cancel := context.WithTimeout(ctx, 30*time.Second)
				err, p := callNoPanic(func() error { var e error; conn, e = varlink.NewConnection(cctx, s); return e })
				if p != "" {
					cancel()
					stop()
					return fail("op=NewConnection symptom=panic class="+classKey(s), "%s: NewConnection panicked: %s", where, p)
				}
				if err != nil {
					cancel()
					stop()
					return fail("op=NewConnection symptom=same-string-does-not-reach class="+classKey(s), "%s: the service listens on %s but a client given the same string got %v", where, addrOf(l1), err)
				}
				got, err := getInfoProduct(cctx, conn)
				cancel()
				conn.Close()
				if err != nil || got != product {
					stop()
					return fail("op=NewConnection symptom=reached-another-service class="+classKey(s), "%s: GetInfo through the same string returned product %q err %v, want %q", where, got, err, product)
				}
			}
			serr, ok := stop()
			if !ok {
				return fail("op=Listen symptom=does-not-return-after-shutdown", "%s did not return within 60 s of Shutdown", where)
			}
			if p, _ := pan.Load().(string); p != "" {
				return fail("op=Listen symptom=panic class="+classKey(s), "%s panicked: %s", where, p)
			}
			if serr != nil {
				return fail("op=Listen symptom=error-after-shutdown", "%s returned %v after Shutdown", where, serr)
			}
			if cl.FsPath && pathExists(cl.Addr) {
				return fail("op=Shutdown symptom=socket-file-left class="+classKey(s), "%s: %q still exists after the service was shut down", where, cl.Addr)
			}
			if _, l, _, proto, addr := svc.VerifPeek(); l != nil || proto != "" || addr != "" {
				return fail("op=Listen symptom=state-not-reset", "%s: after return listener=%v protocol=%q address=%q", where, l != nil, proto, addr)
			}
			m.bound = false
			outs = append(outs, "serve-ok")
		}
	}
	return "", "", outcome
}

func pathExists(p string) bool { _, err := os.Lstat(p); return err == nil }

func portOf(hostport string) string {
	_, p, err := net.SplitHostPort(hostport)
	if err != nil {
		return ""
	}
	return p
}

// kernelPicksPort: the string does not name a port (empty address, empty port, port 0), so the kernel
// chooses one and "the same string" cannot denote the endpoint on the client side.
func kernelPicksPort(hostport string) bool {
	p := portOf(hostport)
	if p == "" {
		return true
	}
	n, err := net.LookupPort("tcp", p)
	return err == nil && n == 0 // "0", "00", ...
}

func addrOf(l net.Listener) string {
	if l == nil {
		return "<nil>"
	}
	return l.Addr().Network() + ":" + l.Addr().String()
}

// checkBound: the listener installed by a successful bind is the endpoint the string denotes.
func checkBound(l net.Listener, cl addrClass) string {
	a := l.Addr()
	if a.Network() != cl.Proto {
		return fmt.Sprintf("listening on network %q, the string says %q", a.Network(), cl.Proto)
	}
	switch {
	case cl.Abstract:
		if a.String() != cl.Addr {
			return fmt.Sprintf("listening on %q, the string says abstract %q", a.String(), cl.Addr)
		}
		if pathExists(cl.Addr) {
			return fmt.Sprintf("abstract address %q created a filesystem entry", cl.Addr)
		}
	case cl.FsPath:
		if a.String() != cl.Addr {
			return fmt.Sprintf("listening on %q, the string says path %q", a.String(), cl.Addr)
		}
		if !isSocket(cl.Addr) {
			return fmt.Sprintf("no socket file at %q after a successful bind", cl.Addr)
		}
	default:
		if p := portOf(cl.Addr); !kernelPicksPort(cl.Addr) {
			if np, err := net.LookupPort("tcp", p); err == nil {
				if ta, ok := a.(*net.TCPAddr); ok && ta.Port != np {
					return fmt.Sprintf("listening on port %d, the string says %s", ta.Port, p)
				}
			}
		}
	}
	return ""
}

// mustSucceed: the template of this op is flagged good (well-formed, endpoint chosen free by the harness).
func mustSucceed(op c19Op, in c19Input, i int) bool { return goodTemplates[op.Addr] }

var goodTemplates = map[string]bool{}

// classKey abstracts a concrete string to a stable key (per-run names, ports and directories removed).
func classKey(s string) string {
	cl := refAddr(s)
	switch {
	case cl.Refuse:
		parts := strings.SplitN(s, ":", 2)
		if len(parts) < 2 {
			return "no-protocol-prefix"
		}
		if parts[0] == "unix" {
			return "empty-unix-path"
		}
		return "protocol=" + fmt.Sprintf("%q", parts[0])
	case cl.Abstract:
		return "unix-abstract"
	case cl.FsPath:
		return "unix-path"
	}
	return "tcp"
}

func runC19(tier string, r *Result) {
	strs := c19Strings(tier)
	for _, a := range strs {
		if a.Good {
			goodTemplates[a.T] = true
		}
	}
	base, err := os.MkdirTemp(".", fmt.Sprintf("c19-%d-", *flagShard))
	if err != nil {
		r.Infra = err.Error()
		return
	}
	abs, _ := filepath.Abs(base)
	defer os.RemoveAll(abs)
	if err := os.Chdir(abs); err != nil {
		r.Infra = err.Error()
		return
	}
	if len(abs) > 60 {
		r.Infra = "private directory path too long for unix socket addresses: " + abs
		return
	}
	// descriptors: a leaked listener per history at most, all closed by cleanup(); raise the soft limit anyway
	var rl syscall.Rlimit
	if syscall.Getrlimit(syscall.RLIMIT_NOFILE, &rl) == nil && rl.Cur < rl.Max {
		rl.Cur = rl.Max
		syscall.Setrlimit(syscall.RLIMIT_NOFILE, &rl)
	}
	w := &c19World{dir: abs}
	idx := 0
	judge := func(in c19Input) {
		idx++
		if !r.mine(idx) || r.expired() {
			return
		}
		r.note(in)
		msg, key, outcome := runHistory(w, in)
		// a TCP port the harness believed free may be taken by a concurrent shard's ephemeral port:
		// re-pick and re-run; only a failure that persists over 4 fresh ports is reported
		for try := 0; try < 3 && msg != "" && strings.Contains(key, "class=tcp") && strings.Contains(msg, "address already in use"); try++ {
			r.Extra["tcp_port_repicked"]++
			msg, key, outcome = runHistory(w, in)
		}
		r.Executions++
		r.Steps += len(in.Hist)
		r.Nodes++
		if key == "infra" {
			r.Extra["inconclusive_environment"]++
			r.outcome("inconclusive: " + strings.SplitN(msg, ":", 2)[0])
			return
		}
		if msg != "" {
			r.outcome("violation " + key)
			r.violation(key, msg, in)
			return
		}
		r.outcome(outcome)
		r.sample(in)
	}
	pres := []string{"", "stale", "file", "dir"}
	// depth 1: every string x {bind, serve, dial} x pre-states of filesystem paths; each followed by
	// "the same object can still serve a known-good address"
	good := c19Op{Op: "serve", Addr: "unix:@{AN}-good"}
	goodTemplates[good.Addr] = true
	for _, a := range strs {
		isFs := refAddr(strings.NewReplacer("{ABS}", "/x", "{AN}", "n", "{PORT}", "1").Replace(a.T)).FsPath
		for _, pre := range pres {
			if pre != "" && !isFs {
				continue
			}
			judge(c19Input{Hist: []c19Op{{Op: "bind", Addr: a.T, Pre: pre}, good}})
			if a.Tok && tier != "thorough" {
				continue
			}
			judge(c19Input{Hist: []c19Op{{Op: "serve", Addr: a.T, Pre: pre}, good}})
			judge(c19Input{Hist: []c19Op{{Op: "bind", Addr: a.T, Pre: pre}, {Op: "bind", Addr: a.T}, {Op: "shutdown"}, good}})
		}
		judge(c19Input{Hist: []c19Op{{Op: "dial", Addr: a.T}}})
	}
	// depth 2/3: a first operation from a representative set, optionally a Shutdown, then every string:
	// the verdict on the second string must not depend on what the object went through before
	firsts := [][]c19Op{
		{{Op: "bind", Addr: "unix:@{AN}"}},
		{{Op: "bind", Addr: "unix:{ABS}/a.sock"}},
		{{Op: "bind", Addr: "tcp:127.0.0.1:{PORT}"}},
		{{Op: "bind", Addr: "unix:{ABS}/missing/a.sock"}},
		{{Op: "bind", Addr: "nocolon"}},
		{{Op: "bind", Addr: "foo:bar"}},
		{{Op: "bind", Addr: "unix:"}},
		{{Op: "serve", Addr: "unix:@{AN}"}},
		{{Op: "serve", Addr: "unix:rel.sock;x"}},
		{{Op: "serve", Addr: "tcp:127.0.0.1:{PORT}"}},
		{{Op: "serve", Addr: "tcp4:127.0.0.1:0"}},
	}
	second := strs
	if tier == "thorough" {
		second = nil
		for _, a := range strs {
			if !a.Tok || a.NTok <= 3 {
				second = append(second, a)
			}
		}
	} else {
		// quick: the grammar product only (token sequences are covered at depth 1)
		second = nil
		for _, a := range strs {
			if a.Base {
				second = append(second, a)
			}
		}
	}
	for _, f := range firsts {
		for _, mid := range []bool{false, true} {
			for _, a := range second {
				for _, op := range []string{"bind", "serve"} {
					h := append([]c19Op{}, f...)
					if mid {
						h = append(h, c19Op{Op: "shutdown"})
					}
					h = append(h, c19Op{Op: op, Addr: a.T}, c19Op{Op: "shutdown"}, good)
					judge(c19Input{Hist: h})
				}
			}
		}
	}
	r.MaxBound = 5
	r.Extra["address_templates"] = len(strs)
}

func init() {
	props["C19"] = propFn{run: runC19, replay: func(raw json.RawMessage) (string, string) {
		var in c19Input
		json.Unmarshal(raw, &in)
		strs := c19Strings("thorough")
		for _, a := range strs {
			if a.Good {
				goodTemplates[a.T] = true
			}
		}
		goodTemplates["unix:@{AN}-good"] = true
		base, _ := os.MkdirTemp(".", "c19-replay-")
		abs, _ := filepath.Abs(base)
		defer os.RemoveAll(abs)
		os.Chdir(abs)
		w := &c19World{dir: abs}
		msg, key, _ := runHistory(w, in)
		return msg, key
	}, rule: "explicit enumeration of operation histories on one real Service object: every address string of a grammar product (10 protocols incl. empty/missing/upper-case/tcp4/unixpacket x 16 path/host forms x 7 ';' tails, each also with a leading space, doubled colon and spaces around the colon) and every token sequence of length <=4 (thorough <=5) over 11 tokens, under {Bind, Listen+client+Shutdown, Bind;Bind;Shutdown, NewConnection} with 4 pre-states of filesystem paths (absent, stale socket, regular file, directory), each followed by serving a known-good address on the same object; plus histories in which one of 11 first operations (successful, failing and refused binds/serves), optionally followed by Shutdown, precedes every string; real kernel sockets in a private directory, per-history abstract names and free TCP ports; oracle = reference classifier restating the property (refusal classes; listener endpoint equals the string's; abstract => no file, path => socket file present after bind and absent after shutdown; same string reaches the service by GetInfo product; state reset), no panic under recover; states = histories executed, transitions = operations",
		assume: []string{"kernel sockets are real: the harness picks endpoints that are free (a busy TCP port or an unreachable listener is counted as inconclusive, never reported)", "outcomes that the property leaves open (OS errors for well-formed strings, a regular file or directory in the way) are counted, not judged", "watchdogs of 30-60 s only classify an execution as inconclusive or 'does not return' (margin >= 10^4 over the normal duration)"}}
}
