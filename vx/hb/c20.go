package main

// C20 - socket activation picks the right inherited descriptor or none.
//
// The full product of environment configurations is enumerated; each configuration runs in a fresh
// helper process (this binary re-executed) that inherits three descriptors (fds 3,4,5) of configured
// kinds, sets LISTEN_* itself (it knows its pid), and calls Service.Listen on a fallback address. The
// parent compares the endpoint the service ends up on with a reference selector and makes a GetInfo
// round trip on it.

import (
	"bufio"
	"context"
	"encoding/json"
	"fmt"
	"io"
	"net"
	"os"
	"os/exec"
	"runtime/debug"
	"strconv"
	"strings"
	"sync/atomic"
	"time"

	"github.com/varlink/go/varlink"
)

type c20Cfg struct {
	Pid   string    `json:"pid"`   // own | other | unset | garbage | own+space
	FDS   *string   `json:"fds"`   // nil = unset
	Names *string   `json:"names"` // nil = unset
	Kinds [3]string `json:"kinds"` // sock | file | pipe for fds 3,4,5
	Addr  string    `json:"addr"`  // valid | invalid : the address argument given to Listen
	// filled by the parent
	Product  string    `json:"product,omitempty"`
	Fallback string    `json:"fallback,omitempty"`
	Cand     [3]string `json:"cand,omitempty"` // addresses of the socket candidates ("" for non-sockets)
	CandNet  [3]string `json:"cand_net,omitempty"` // their networks ("" = unix)
}

// refActivation restates the property: index (0..2) of the inherited descriptor to serve on, or -1 = fall back
// to the address. beyond = the selected descriptor number lies beyond the three passed ones.
func refActivation(c c20Cfg) (sel int) {
	if c.Pid != "own" {
		return -1
	}
	if c.FDS == nil {
		return -1
	}
	n, ok := positiveInt(*c.FDS)
	if !ok {
		return -1
	}
	idx := 0
	if n > 1 {
		if c.Names == nil {
			return -1
		}
		names := strings.Split(*c.Names, ":")
		if len(names) != n {
			return -1
		}
		idx = -1
		for i, nm := range names {
			if nm == "varlink" {
				idx = i
				break
			}
		}
		if idx < 0 {
			return -1
		}
	}
	if idx > 2 || !strings.HasSuffix(c.Kinds[idx], "sock") {
		return -1 // not a socket (or not a descriptor we passed): fall back
	}
	return idx
}

// positiveInt: decimal digits only, value >= 1 (forms like "+1" or " 1" are not in the alphabet).
func positiveInt(s string) (int, bool) {
	if s == "" {
		return 0, false
	}
	n := 0
	for _, ch := range s {
		if ch < '0' || ch > '9' {
			return 0, false
		}
		n = n*10 + int(ch-'0')
		if n > 1000 {
			return 0, false
		}
	}
	return n, n >= 1
}

func sp(s string) *string { return &s }

func c20Configs(tier string) []c20Cfg {
	pids := []string{"own", "other", "parent", "unset", "garbage"}
	fds := []*string{nil, sp(""), sp("foo"), sp("-1"), sp("0"), sp("1"), sp("2"), sp("3")}
	names := []*string{nil, sp(""), sp("varlink"), sp("a:b"), sp("varlink:a"), sp("a:varlink"), sp("varlink:varlink"),
		sp("a:b:c"), sp("varlink:a:b"), sp("a:varlink:b"), sp("a:b:varlink"), sp("varlink:varlink:b"), sp("a:varlink:varlink"),
		sp("Varlink:a"), sp("a:b:c:varlink"), sp("varlink:b:c:d"), sp("a:varlinkx:varlink"),
		// empty entries are entries: they count for the arity and for the position of "varlink"
		sp(":varlink"), sp("varlink:"), sp(":"), sp("a::varlink"), sp("varlink:a:"), sp("::varlink"), sp(":varlink:")}
	kinds := []string{"sock", "file", "pipe"}
	var out []c20Cfg
	for _, p := range pids {
		for _, f := range fds {
			for _, n := range names {
				for _, k0 := range kinds {
					for _, k1 := range kinds {
						for _, k2 := range kinds {
							for _, a := range []string{"valid", "invalid", "fspath"} {
								if tier != "thorough" {
									// quick: the address dimension only where exactly one descriptor is not a socket or all are sockets
									nonsock := 0
									for _, k := range []string{k0, k1, k2} {
										if k != "sock" {
											nonsock++
										}
									}
									if nonsock > 1 && !(k0 == k1 && k1 == k2) {
										continue
									}
									if a != "valid" && nonsock > 0 {
										continue
									}
								}
								out = append(out, c20Cfg{Pid: p, FDS: f, Names: n, Kinds: [3]string{k0, k1, k2}, Addr: a})
							}
						}
					}
				}
			}
		}
	}
	// inherited sockets that are not abstract unix sockets (TCP, unix path), with every kind of address argument
	for _, k0 := range []string{"tcpsock", "pathsock"} {
		for _, a := range []string{"valid", "invalid", "fspath"} {
			out = append(out, c20Cfg{Pid: "own", FDS: sp("1"), Kinds: [3]string{k0, "sock", "sock"}, Addr: a})
			out = append(out, c20Cfg{Pid: "own", FDS: sp("2"), Names: sp("a:varlink"), Kinds: [3]string{"sock", k0, "sock"}, Addr: a})
			out = append(out, c20Cfg{Pid: "other", FDS: sp("1"), Kinds: [3]string{k0, "sock", "sock"}, Addr: a})
		}
	}
	return out
}

var c20Ctr int64

// runC20Config executes one configuration; returns msg/key of a violation, or an outcome class.
func runC20Config(c c20Cfg) (msg, key, outcome string) {
	n := atomic.AddInt64(&c20Ctr, 1)
	tag := fmt.Sprintf("vx20-%d-%d", os.Getpid(), n)
	c.Product = "P-" + tag
	c.Fallback = "@" + tag + "-fallback"
	pathFile := ""
	if c.Addr == "fspath" {
		// the address argument names an existing filesystem node: under activation it must be left alone
		pathFile = fmt.Sprintf("c20-%s.path", tag)
		os.WriteFile(pathFile, []byte("precious"), 0o644)
		defer os.Remove(pathFile)
		c.Fallback = pathFile
	}
	var files []*os.File
	var closers []io.Closer
	defer func() {
		for _, cl := range closers {
			cl.Close()
		}
	}()
	for i, k := range c.Kinds {
		switch k {
		case "sock":
			name := fmt.Sprintf("@%s-fd%d", tag, 3+i)
			l, err := net.Listen("unix", name)
			if err != nil {
				return "listen " + name + ": " + err.Error(), "infra", ""
			}
			closers = append(closers, l)
			f, err := l.(*net.UnixListener).File()
			if err != nil {
				return err.Error(), "infra", ""
			}
			files = append(files, f)
			closers = append(closers, f)
			c.Cand[i] = name
		case "tcpsock", "pathsock":
			// an inherited listening socket that is not an abstract unix socket: TCP loopback, or a unix socket with a
			// path in the filesystem (which is still there when the service has gone: it never was the service's to remove)
			var l net.Listener
			var err error
			if k == "tcpsock" {
				l, err = net.Listen("tcp", "127.0.0.1:0")
				c.CandNet[i] = "tcp"
			} else {
				p := fmt.Sprintf("c20-%s-fd%d.sock", tag, 3+i)
				l, err = net.Listen("unix", p)
				if err == nil {
					l.(*net.UnixListener).SetUnlinkOnClose(false)
					defer os.Remove(p)
				}
			}
			if err != nil {
				return "listen: " + err.Error(), "infra", ""
			}
			closers = append(closers, l)
			f, err := l.(interface{ File() (*os.File, error) }).File()
			if err != nil {
				return err.Error(), "infra", ""
			}
			files = append(files, f)
			closers = append(closers, f)
			c.Cand[i] = l.Addr().String()
		case "file":
			f, err := os.CreateTemp(".", "c20-file-")
			if err != nil {
				return err.Error(), "infra", ""
			}
			os.Remove(f.Name())
			files = append(files, f)
			closers = append(closers, f)
		case "pipe":
			r, w, err := os.Pipe()
			if err != nil {
				return err.Error(), "infra", ""
			}
			files = append(files, r)
			closers = append(closers, r, w)
		}
	}
	cj, _ := json.Marshal(c)
	cmd := exec.Command(os.Args[0], "-helper", "c20", string(cj))
	var env []string
	for _, e := range os.Environ() {
		if !strings.HasPrefix(e, "LISTEN_") {
			env = append(env, e)
		}
	}
	cmd.Env = env
	cmd.ExtraFiles = files
	stdin, _ := cmd.StdinPipe()
	stdout, _ := cmd.StdoutPipe()
	var stderr strings.Builder
	cmd.Stderr = &stderr
	if err := cmd.Start(); err != nil {
		return err.Error(), "infra", ""
	}
	done := make(chan struct{})
	var line string
	rd := bufio.NewReader(stdout)
	go func() {
		line, _ = rd.ReadString('\n')
		close(done)
	}()
	finish := func() {
		stdin.Close()
		io.Copy(io.Discard, rd)
		cmd.Wait()
	}
	select {
	case <-done:
	case <-time.After(60 * time.Second):
		cmd.Process.Kill()
		cmd.Wait()
		return "helper did not report within 60 s", "infra", ""
	}
	line = strings.TrimSpace(line)
	sel := refActivation(c)
	cfgKey := c20Key(c)
	switch {
	case strings.HasPrefix(line, "PANIC"):
		finish()
		return "Listen panicked: " + line + " " + stderr.String(), "symptom=panic " + cfgKey, ""
	case strings.HasPrefix(line, "LISTENERR"):
		finish()
		if sel < 0 && c.Addr == "invalid" {
			return "", "", "no-activation/invalid-address-refused"
		}
		if sel >= 0 {
			return fmt.Sprintf("activation applies (descriptor %d) but Listen failed: %s", 3+sel, line), "symptom=listen-failed-under-activation " + cfgKey, ""
		}
		return "fallback address should have been served but Listen failed: " + line, "symptom=fallback-failed " + cfgKey, ""
	case strings.HasPrefix(line, "READY "):
		got := strings.TrimPrefix(line, "READY ")
		want := "unix " + c.Fallback
		wantNet := "unix"
		if sel >= 0 {
			if c.CandNet[sel] != "" {
				wantNet = c.CandNet[sel]
			}
			want = wantNet + " " + c.Cand[sel]
		}
		if sel >= 0 && pathFile != "" {
			if b, err := os.ReadFile(pathFile); err != nil || string(b) != "precious" {
				finish()
				return fmt.Sprintf("the service was activated on descriptor %d, yet the filesystem node named by the (ignored) address argument was touched: %v %q", 3+sel, err, b), "symptom=address-argument-not-ignored " + cfgKey, ""
			}
		}
		if sel < 0 && c.Addr == "invalid" {
			finish()
			return fmt.Sprintf("no activation and an invalid address, yet the service listens on %q", got), "symptom=serves-without-address-or-activation " + cfgKey, ""
		}
		if got != want {
			finish()
			return fmt.Sprintf("service listens on %q, reference selector says %q", got, want), "symptom=wrong-endpoint " + cfgKey, ""
		}
		// black-box confirmation: that endpoint answers GetInfo with this helper's product string
		addr := strings.TrimPrefix(want, wantNet+" ")
		conn, err := net.Dial(wantNet, addr)
		if err != nil {
			finish()
			return "dial " + addr + ": " + err.Error(), "symptom=endpoint-unreachable " + cfgKey, ""
		}
		vc := varlink.VerifNewConnection(conn)
		ctx, cancel := context.WithTimeout(context.Background(), 30*time.Second)
		prod, err := getInfoProduct(ctx, vc)
		cancel()
		vc.Close()
		if err != nil || prod != c.Product {
			finish()
			return fmt.Sprintf("GetInfo on %s: product %q err %v, want %q", addr, prod, err, c.Product), "symptom=endpoint-not-served " + cfgKey, ""
		}
		stdin.Close()
		rest, _ := io.ReadAll(rd)
		cmd.Wait()
		if !strings.Contains(string(rest), "DONE <nil>") {
			return "after Shutdown the helper reported " + strings.TrimSpace(string(rest)) + " " + stderr.String(), "symptom=shutdown-error " + cfgKey, ""
		}
		if sel >= 0 && c.Kinds[sel] == "pathsock" {
			if _, err := os.Stat(c.Cand[sel]); err != nil {
				return fmt.Sprintf("the inherited unix socket %s was removed from the filesystem when the service ended: %v", c.Cand[sel], err), "symptom=inherited-socket-path-removed " + cfgKey, ""
			}
		}
		if sel >= 0 && pathFile != "" {
			// ... and stays untouched when serving ends (teardown must not clean up an address it never bound)
			if b, err := os.ReadFile(pathFile); err != nil || string(b) != "precious" {
				return fmt.Sprintf("the service was activated on descriptor %d; after Shutdown the filesystem node named by the (ignored) address argument is gone or changed: %v %q", 3+sel, err, b), "symptom=address-argument-not-ignored " + cfgKey, ""
			}
		}
		if sel >= 0 {
			return "", "", fmt.Sprintf("activation/fd%d", 3+sel)
		}
		return "", "", "fallback-address"
	}
	finish()
	return "helper said: " + line + " stderr: " + stderr.String(), "infra", ""
}

func c20Key(c c20Cfg) string {
	f, n := "unset", "unset"
	if c.FDS != nil {
		f = strconv.Quote(*c.FDS)
	}
	if c.Names != nil {
		n = strconv.Quote(*c.Names)
	}
	sel := "none"
	if i := refActivation(c); i >= 0 {
		sel = fmt.Sprint(3 + i)
	}
	return fmt.Sprintf("pid=%s fds=%s names=%s expected-fd=%s", c.Pid, f, n, sel)
}

func c20Helper(args []string) int {
	var c c20Cfg
	if len(args) < 1 || json.Unmarshal([]byte(args[0]), &c) != nil {
		fmt.Println("BADARGS")
		return 2
	}
	switch c.Pid {
	case "own":
		os.Setenv("LISTEN_PID", strconv.Itoa(os.Getpid()))
	case "other":
		os.Setenv("LISTEN_PID", strconv.Itoa(os.Getpid()+1))
	case "parent":
		os.Setenv("LISTEN_PID", strconv.Itoa(os.Getppid()))
	case "garbage":
		os.Setenv("LISTEN_PID", "garbage")
	default:
		os.Unsetenv("LISTEN_PID")
	}
	if c.FDS != nil {
		os.Setenv("LISTEN_FDS", *c.FDS)
	} else {
		os.Unsetenv("LISTEN_FDS")
	}
	if c.Names != nil {
		os.Setenv("LISTEN_FDNAMES", *c.Names)
	} else {
		os.Unsetenv("LISTEN_FDNAMES")
	}
	svc, err := varlink.NewService("vx", c.Product, "1", "u")
	if err != nil {
		fmt.Println("LISTENERR NewService", err)
		return 0
	}
	addr := "unix:" + c.Fallback
	if c.Addr == "fspath" {
		addr = "unix:" + c.Fallback + ";mode=0600"
	}
	if c.Addr == "invalid" {
		addr = "garbage-without-protocol"
	}
	done := make(chan error, 1)
	go func() {
		defer func() {
			if p := recover(); p != nil {
				fmt.Println("PANIC", p)
				os.Exit(0)
			}
		}()
		done <- svc.Listen(context.Background(), addr, 0)
	}()
	for {
		select {
		case err := <-done:
			fmt.Println("LISTENERR", err)
			return 0
		default:
		}
		if l, _ := svc.GetListener(); l != nil {
			fmt.Println("READY", l.Addr().Network(), l.Addr().String())
			break
		}
		time.Sleep(50 * time.Microsecond)
	}
	io.Copy(io.Discard, os.Stdin) // parent closes stdin to end the run
	svc.Shutdown()
	select {
	case err := <-done:
		fmt.Println("DONE", err)
	case <-time.After(60 * time.Second):
		fmt.Println("DONE timeout")
	}
	return 0
}

func runC20(tier string, r *Result) {
	cfgs := c20Configs(tier)
	for i, c := range cfgs {
		if !r.mine(i) || r.expired() {
			continue
		}
		r.note(c)
		msg, key, outcome := runC20Config(c)
		r.Executions++
		r.Nodes++
		r.Steps += 3
		if key == "infra" {
			r.Extra["inconclusive_environment"]++
			r.outcome("inconclusive: " + msg)
			continue
		}
		if msg != "" {
			r.outcome("violation " + strings.SplitN(key, " pid=", 2)[0])
			r.violation(key, msg, c)
			continue
		}
		r.outcome(fmt.Sprintf("pid=%s %s", c.Pid, outcome))
		if c.Pid == "own" {
			r.sample(c)
		}
	}
	r.Extra["configurations"] = len(cfgs)
	seqs := c20Seqs()
	for i, q := range seqs {
		if !r.mine(len(cfgs)+i) || r.expired() {
			continue
		}
		msg, key, outcome := runC20Seq(q)
		r.Executions++
		r.Nodes++
		r.Steps += 6
		if key == "infra" {
			r.Extra["inconclusive_environment"]++
			r.outcome("inconclusive: " + msg)
			continue
		}
		if msg != "" {
			r.outcome("violation " + strings.SplitN(key, " history=", 2)[0])
			r.violation(key, msg, q)
			continue
		}
		r.outcome(outcome)
	}
	r.Extra["two_listen_histories"] = len(seqs)
}

func init() {
	helpers["c20"] = c20Helper
	helpers["c20seq"] = c20SeqHelper
	props["C20"] = propFn{run: runC20, replay: func(raw json.RawMessage) (string, string) {
		var q c20Seq
		if json.Unmarshal(raw, &q) == nil && q.First.Pid != "" {
			msg, key, _ := runC20Seq(q)
			return msg, key
		}
		var c c20Cfg
		json.Unmarshal(raw, &c)
		msg, key, _ := runC20Config(c)
		return msg, key
	}, rule: "exhaustive enumeration of the configuration product LISTEN_PID {this process, another pid, the parent's pid, unset, garbage} x LISTEN_FDS {unset, '', foo, -1, 0, 1, 2, 3} x LISTEN_FDNAMES {unset, '', 16 lists with varlink first/middle/last/twice/absent/wrong case/superstring and arity 1-4} x kind of each of the three inherited descriptors {listening socket, regular file, pipe} x address argument {valid abstract name, invalid, path of an existing file}; every configuration runs Service.Listen in a fresh helper process that really inherits descriptors 3-5; the endpoint the service listens on (and a GetInfo round trip on it with the helper's unique product string) is compared with a reference selector restating the property; plus two-Listen histories: two services started one after the other in one process over 7 environments before x 7 after (activation appearing late, being cleared, moving to another descriptor), each judged against the environment at the time of its own Listen; states = configurations and histories executed",
		assume: []string{"one helper process per configuration; descriptor numbers beyond the three passed ones are runtime-internal (never sockets usable as listeners)", "LISTEN_FDS forms with sign or blanks ('+1', ' 1') are outside the alphabet (the property does not say whether they are integers)", "the 30-60 s watchdogs only classify a run as inconclusive"}}
}

// ---------------------------------------------------------------------------------------------
// Histories: two services started one after the other in ONE process, the LISTEN_* environment changing in
// between. The decision is a function of the environment at the time of each Listen: what an earlier Listen
// found (or did not find) must not govern a later one.

type c20Env struct {
	Pid   string  `json:"pid"`
	FDS   *string `json:"fds"`
	Names *string `json:"names"`
}

type c20Seq struct {
	First  c20Cfg `json:"first"`
	Second c20Env `json:"second"`
	// Sequential: the first service is shut down before the second is started (used when both adopt the same
	// descriptor); otherwise the second starts while the first runs
	Sequential bool `json:"sequential,omitempty"`
}

func c20Seqs() []c20Seq {
	envs := []c20Env{
		{"own", sp("1"), nil},
		{"unset", nil, nil},
		{"other", sp("1"), nil},
		{"own", sp("0"), nil},
		{"own", sp("3"), sp("a:varlink:b")},
		{"own", sp("2"), sp("a:varlink")},
		{"own", sp("foo"), sp("varlink")},
	}
	var out []c20Seq
	for _, a := range envs {
		for _, b := range envs {
			c1 := c20Cfg{Pid: a.Pid, FDS: a.FDS, Names: a.Names, Kinds: [3]string{"sock", "sock", "sock"}, Addr: "valid"}
			c2 := c20Cfg{Pid: b.Pid, FDS: b.FDS, Names: b.Names, Kinds: c1.Kinds}
			if s1, s2 := refActivation(c1), refActivation(c2); s1 >= 0 && s1 == s2 {
				// the same descriptor adopted twice in one process: one after the other (Listen, Shutdown, Listen)
				out = append(out, c20Seq{First: c1, Second: b, Sequential: true})
				continue
			}
			out = append(out, c20Seq{First: c1, Second: b})
		}
	}
	return out
}

func setListenEnv(pid string, fds, names *string) {
	switch pid {
	case "own":
		os.Setenv("LISTEN_PID", strconv.Itoa(os.Getpid()))
	case "other":
		os.Setenv("LISTEN_PID", strconv.Itoa(os.Getpid()+1))
	case "parent":
		os.Setenv("LISTEN_PID", strconv.Itoa(os.Getppid()))
	case "garbage":
		os.Setenv("LISTEN_PID", "garbage")
	default:
		os.Unsetenv("LISTEN_PID")
	}
	if fds != nil {
		os.Setenv("LISTEN_FDS", *fds)
	} else {
		os.Unsetenv("LISTEN_FDS")
	}
	if names != nil {
		os.Setenv("LISTEN_FDNAMES", *names)
	} else {
		os.Unsetenv("LISTEN_FDNAMES")
	}
}

// helper "c20seq": Listen under the first environment, report, Listen (second Service) under the second, report
func c20SeqHelper(args []string) int {
	var q c20Seq
	if len(args) < 1 || json.Unmarshal([]byte(args[0]), &q) != nil {
		fmt.Println("BADARGS")
		return 2
	}
	start := func(tag, product, fallback, pid string, fds, names *string) (*varlink.Service, chan error) {
		setListenEnv(pid, fds, names)
		svc, _ := varlink.NewService("vx", product, "1", "u")
		done := make(chan error, 1)
		go func() {
			defer func() {
				if p := recover(); p != nil {
					fmt.Println("PANIC"+tag, p)
					os.Exit(0)
				}
			}()
			done <- svc.Listen(context.Background(), "unix:"+fallback, 0)
		}()
		for {
			select {
			case err := <-done:
				fmt.Println("LISTENERR"+tag, err)
				return nil, nil
			default:
			}
			if l, _ := svc.GetListener(); l != nil {
				fmt.Println("READY"+tag, l.Addr().Network(), l.Addr().String())
				return svc, done
			}
			time.Sleep(50 * time.Microsecond)
		}
	}
	c := q.First
	if q.Sequential {
		// no collection between the two decisions: whether the first decision's os.File is finalised (closing the
		// inherited descriptor) before the second looks at it is a matter of timing that is not under test
		debug.SetGCPercent(-1)
	}
	s1, d1 := start("1", c.Product, c.Fallback, c.Pid, c.FDS, c.Names)
	if s1 == nil {
		return 0
	}
	stdin := bufio.NewReader(os.Stdin)
	if q.Sequential {
		stdin.ReadString('\n') // the parent has looked at the first service
		s1.Shutdown()
		select {
		case err := <-d1:
			fmt.Println("DONE1", err)
		case <-time.After(60 * time.Second):
			fmt.Println("DONE1 timeout")
		}
		d1 = nil
	}
	s2, d2 := start("2", c.Product+"-second", c.Fallback+"-second", q.Second.Pid, q.Second.FDS, q.Second.Names)
	if s2 == nil {
		return 0
	}
	io.Copy(io.Discard, stdin)
	if d1 != nil {
		s1.Shutdown()
	}
	s2.Shutdown()
	for _, d := range []chan error{d1, d2} {
		if d == nil {
			continue
		}
		select {
		case err := <-d:
			fmt.Println("DONE", err)
		case <-time.After(60 * time.Second):
			fmt.Println("DONE timeout")
		}
	}
	return 0
}

func runC20Seq(q c20Seq) (msg, key, outcome string) {
	n := atomic.AddInt64(&c20Ctr, 1)
	tag := fmt.Sprintf("vx20s-%d-%d", os.Getpid(), n)
	c := &q.First
	c.Product = "P-" + tag
	c.Fallback = "@" + tag + "-fallback"
	var files []*os.File
	var closers []io.Closer
	defer func() {
		for _, cl := range closers {
			cl.Close()
		}
	}()
	for i := range c.Kinds {
		name := fmt.Sprintf("@%s-fd%d", tag, 3+i)
		l, err := net.Listen("unix", name)
		if err != nil {
			return "listen " + name + ": " + err.Error(), "infra", ""
		}
		f, err := l.(*net.UnixListener).File()
		if err != nil {
			return err.Error(), "infra", ""
		}
		closers = append(closers, l, f)
		files = append(files, f)
		c.Cand[i] = name
	}
	qj, _ := json.Marshal(q)
	cmd := exec.Command(os.Args[0], "-helper", "c20seq", string(qj))
	for _, e := range os.Environ() {
		if !strings.HasPrefix(e, "LISTEN_") {
			cmd.Env = append(cmd.Env, e)
		}
	}
	cmd.ExtraFiles = files
	stdin, _ := cmd.StdinPipe()
	stdout, _ := cmd.StdoutPipe()
	var stderr strings.Builder
	cmd.Stderr = &stderr
	if err := cmd.Start(); err != nil {
		return err.Error(), "infra", ""
	}
	rd := bufio.NewReader(stdout)
	lines := make(chan string, 2)
	done1 := ""
	go func() {
		for i := 0; i < 2; {
			l, err := rd.ReadString('\n')
			if strings.HasPrefix(l, "DONE1") {
				done1 = strings.TrimSpace(l)
				continue
			}
			i++
			lines <- strings.TrimSpace(l)
			if err != nil || !strings.HasPrefix(l, "READY") {
				return
			}
		}
	}()
	finish := func() {
		stdin.Close()
		io.Copy(io.Discard, rd)
		cmd.Wait()
	}
	second := c20Cfg{Pid: q.Second.Pid, FDS: q.Second.FDS, Names: q.Second.Names, Kinds: c.Kinds, Cand: c.Cand, Product: c.Product + "-second", Fallback: c.Fallback + "-second"}
	hist := fmt.Sprintf("history=[%s] then [%s]", c20Key(*c), c20Key(second))
	for i, cfg := range []c20Cfg{*c, second} {
		var line string
		select {
		case line = <-lines:
		case <-time.After(60 * time.Second):
			cmd.Process.Kill()
			cmd.Wait()
			return "helper did not report within 60 s", "infra", ""
		}
		which := []string{"first", "second"}[i]
		sel := refActivation(cfg)
		want := "unix " + cfg.Fallback
		if sel >= 0 {
			want = "unix " + cfg.Cand[sel]
		}
		switch {
		case strings.HasPrefix(line, "PANIC"):
			finish()
			return "Listen panicked: " + line, "symptom=panic " + hist, ""
		case strings.HasPrefix(line, "LISTENERR"):
			finish()
			return fmt.Sprintf("the %s Listen of the process failed (%s); the reference selector says it serves %q", which, line, want), "symptom=listen-failed " + hist, ""
		case strings.HasPrefix(line, "READY"):
			got := strings.TrimSpace(line[len("READY")+1:])
			if got != want {
				finish()
				return fmt.Sprintf("the %s service of the process listens on %q; under the environment at the time of its Listen the reference selector says %q", which, got, want), "symptom=wrong-endpoint which=" + which + " " + hist, ""
			}
			addr := strings.TrimPrefix(want, "unix ")
			conn, err := net.Dial("unix", addr)
			if err != nil {
				finish()
				return "dial " + addr + ": " + err.Error(), "symptom=endpoint-unreachable which=" + which + " " + hist, ""
			}
			vc := varlink.VerifNewConnection(conn)
			ctx, cancel := context.WithTimeout(context.Background(), 30*time.Second)
			prod, err := getInfoProduct(ctx, vc)
			cancel()
			vc.Close()
			if err != nil || prod != cfg.Product {
				finish()
				return fmt.Sprintf("GetInfo on %s: product %q err %v, want %q", addr, prod, err, cfg.Product), "symptom=endpoint-not-served which=" + which + " " + hist, ""
			}
			if i == 0 && q.Sequential {
				io.WriteString(stdin, "next\n")
			}
		default:
			finish()
			return "helper said: " + line + " stderr: " + stderr.String(), "infra", ""
		}
	}
	stdin.Close()
	rest, _ := io.ReadAll(rd)
	cmd.Wait()
	wantDone := 2
	if q.Sequential {
		wantDone = 1
		if done1 != "DONE1 <nil>" {
			return "the first service's Listen ended with " + done1 + " after Shutdown", "symptom=shutdown-error " + hist, ""
		}
	}
	if strings.Count(string(rest), "DONE <nil>") != wantDone {
		return "after Shutdown the helper reported " + strings.TrimSpace(string(rest)) + " " + stderr.String(), "symptom=shutdown-error " + hist, ""
	}
	return "", "", fmt.Sprintf("history: first %s, second %s", selWord(refActivation(*c)), selWord(refActivation(second)))
}

func selWord(sel int) string {
	if sel < 0 {
		return "fallback"
	}
	return fmt.Sprintf("fd%d", 3+sel)
}
