package main

// C07 - the interface generator emits compiling Go for every accepted description.
//
// Bounded-exhaustive enumeration of descriptions (type constructors x positions, member-list shapes,
// interface-name forms, field names from Go keywords and generator-local identifiers, documentation
// texts); each is given to the tree's own generateTemplate (through a request server added to the
// generator's package main by the build overlay), twice; the output is type-checked in-process by
// go/types against the export data of the working tree's varlink package, its run-time name and
// description are constant-folded from the typed AST, a stratified subset is also run through the real
// binary on a real file and built with the real `go build`.

import (
	"bufio"
	"bytes"
	"encoding/json"
	"fmt"
	"go/ast"
	"go/constant"
	"go/importer"
	"go/parser"
	"go/token"
	"go/types"
	"io"
	"os"
	"os/exec"
	"path/filepath"
	"regexp"
	"sort"
	"strings"
	"time"
)

// ---- generator server client ----

type genResp struct {
	Pkg   string `json:"pkg"`
	Out   []byte `json:"out"`
	Err   string `json:"err"`
	Panic string `json:"panic"`
	Hang  bool   `json:"-"`
}

type genServer struct {
	cmd *exec.Cmd
	in  io.WriteCloser
	out *bufio.Reader
}

func (g *genServer) start() error {
	g.cmd = exec.Command(os.Getenv("VX_HG"))
	g.cmd.Env = append(os.Environ(), "VX_GEN_SERVER=1")
	var err error
	if g.in, err = g.cmd.StdinPipe(); err != nil {
		return err
	}
	so, err := g.cmd.StdoutPipe()
	if err != nil {
		return err
	}
	g.out = bufio.NewReaderSize(so, 1<<20)
	g.cmd.Stderr = os.Stderr
	return g.cmd.Start()
}

func (g *genServer) stop() {
	if g.cmd != nil {
		g.in.Close()
		g.cmd.Process.Kill()
		g.cmd.Wait()
		g.cmd = nil
	}
}

// gen asks the server; a dead server (fatal error other than a recovered panic) or 120 s without an answer
// is reported as Panic / Hang and the server is restarted.
func (g *genServer) gen(desc string) genResp {
	if g.cmd == nil {
		if err := g.start(); err != nil {
			return genResp{Panic: "cannot start generator: " + err.Error()}
		}
	}
	req, _ := json.Marshal(map[string]string{"d": desc})
	type res struct {
		line []byte
		err  error
	}
	ch := make(chan res, 1)
	go func() {
		if _, err := g.in.Write(append(req, '\n')); err != nil {
			ch <- res{nil, err}
			return
		}
		l, err := g.out.ReadBytes('\n')
		ch <- res{l, err}
	}()
	select {
	case r := <-ch:
		if r.err != nil {
			g.stop()
			return genResp{Panic: "generator process died: " + r.err.Error()}
		}
		var resp genResp
		if err := json.Unmarshal(r.line, &resp); err != nil {
			g.stop()
			return genResp{Panic: "bad answer from generator process: " + err.Error()}
		}
		return resp
	case <-time.After(120 * time.Second):
		g.stop()
		return genResp{Hang: true}
	}
}

// ---- type checking generated code against the working tree's varlink package ----

type typeChecker struct {
	exports map[string]string
	fset    *token.FileSet
	imp     types.Importer
}

func newTypeChecker() (*typeChecker, error) {
	b, err := os.ReadFile(os.Getenv("VX_EXPORTS"))
	if err != nil {
		return nil, err
	}
	tc := &typeChecker{exports: map[string]string{}, fset: token.NewFileSet()}
	for _, l := range strings.Split(string(b), "\n") {
		if i := strings.IndexByte(l, '='); i > 0 {
			tc.exports[l[:i]] = l[i+1:]
		}
	}
	if tc.exports["github.com/varlink/go/varlink"] == "" {
		return nil, fmt.Errorf("no export data for package varlink in %s", os.Getenv("VX_EXPORTS"))
	}
	tc.imp = importer.ForCompiler(tc.fset, "gc", func(path string) (io.ReadCloser, error) {
		f, ok := tc.exports[path]
		if !ok {
			return nil, fmt.Errorf("no export data for %q", path)
		}
		return os.Open(f)
	})
	return tc, nil
}

type checked struct {
	ParseErr string
	TypeErrs []string
	Pkg      string
	Name     string // constant value returned by VarlinkGetName ("" + ok=false if not constant)
	NameOK   bool
	Desc     string
	DescOK   bool
}

func (tc *typeChecker) check(src []byte) checked {
	var c checked
	fset := token.NewFileSet()
	f, err := parser.ParseFile(fset, "gen.go", src, parser.ParseComments)
	if err != nil {
		c.ParseErr = err.Error()
		return c
	}
	c.Pkg = f.Name.Name
	conf := types.Config{Importer: tc.imp, Error: func(err error) { c.TypeErrs = append(c.TypeErrs, err.Error()) }}
	info := &types.Info{Types: map[ast.Expr]types.TypeAndValue{}}
	conf.Check(c.Pkg, fset, []*ast.File{f}, info)
	for _, d := range f.Decls {
		fd, ok := d.(*ast.FuncDecl)
		if !ok || fd.Recv == nil || fd.Body == nil {
			continue
		}
		if fd.Name.Name != "VarlinkGetName" && fd.Name.Name != "VarlinkGetDescription" {
			continue
		}
		if len(fd.Body.List) != 1 {
			continue
		}
		rs, ok := fd.Body.List[0].(*ast.ReturnStmt)
		if !ok || len(rs.Results) != 1 {
			continue
		}
		tv := info.Types[rs.Results[0]]
		if tv.Value == nil || tv.Value.Kind() != constant.String {
			continue
		}
		if fd.Name.Name == "VarlinkGetName" {
			c.Name, c.NameOK = constant.StringVal(tv.Value), true
		} else {
			c.Desc, c.DescOK = constant.StringVal(tv.Value), true
		}
	}
	return c
}

// ---- the description set ----

type c07Case struct {
	Text     string   `json:"text"`
	Name     string   `json:"name"`     // interface name
	Features []string `json:"features"` // syntactic features used for the violation key
	Tree     *RIDL    `json:"tree"`     // the generating tree (for the repaired-input rule of known findings)
	Docs     bool     `json:"docs"`     // rendered with documentation blocks
}

func (c c07Case) render() string {
	if c.Docs {
		return renderDocs(c.Tree, "", false, "")
	}
	return render(pieces(c.Tree), nil)
}

// ---- triggers: syntactic features with a repair, used to attribute a failure to a recorded finding only when
// the description with that feature repaired no longer shows the symptom (DESIGN.md, known findings) ----

func cloneType(t *RType) *RType {
	if t == nil {
		return nil
	}
	n := &RType{Kind: t.Kind, Alias: t.Alias, Elem: cloneType(t.Elem)}
	for _, f := range t.Fields {
		n.Fields = append(n.Fields, RField{Name: f.Name, Type: cloneType(f.Type)})
	}
	return n
}

func cloneIDL(d *RIDL) *RIDL {
	n := &RIDL{Name: d.Name, Doc: append([]string(nil), d.Doc...)}
	for _, m := range d.Members {
		n.Members = append(n.Members, RMember{Kind: m.Kind, Name: m.Name, Type: cloneType(m.Type), In: cloneType(m.In), Out: cloneType(m.Out), Doc: append([]string(nil), m.Doc...)})
	}
	return n
}

func hasTaggedStruct(t *RType) bool {
	if t == nil {
		return false
	}
	if t.Kind == "struct" && len(t.Fields) > 0 {
		return true
	}
	if hasTaggedStruct(t.Elem) {
		return true
	}
	return false
}

// topFields visits the parameter lists whose fields get an untagged twin in the output.
func topFields(d *RIDL, f func(fl *RField)) {
	for i := range d.Members {
		m := &d.Members[i]
		switch m.Kind {
		case "method":
			for j := range m.In.Fields {
				f(&m.In.Fields[j])
			}
			for j := range m.Out.Fields {
				f(&m.Out.Fields[j])
			}
		case "error":
			if m.Type != nil && m.Type.Kind == "struct" {
				for j := range m.Type.Fields {
					f(&m.Type.Fields[j])
				}
			}
		}
	}
}

func mapDocs(d *RIDL, f func(string) string) bool {
	changed := false
	each := func(doc []string) {
		for i, l := range doc {
			if n := f(l); n != l {
				doc[i] = n
				changed = true
			}
		}
	}
	each(d.Doc)
	for i := range d.Members {
		each(d.Members[i].Doc)
	}
	return changed
}

type c07Trigger struct {
	name   string
	repair func(d *RIDL) bool // modifies d; false if the feature is absent
}

var c07Triggers = []c07Trigger{
	{"doc-contains-@IMPORTS@", func(d *RIDL) bool {
		return mapDocs(d, func(l string) string { return strings.ReplaceAll(l, "@IMPORTS@", "IMPORTS") })
	}},
	{"doc-mentions-optional-import", func(d *RIDL) bool {
		return mapDocs(d, func(l string) string {
			for _, w := range []string{"json.RawMessage", "fmt.Sprintf", "context.Context"} {
				l = strings.ReplaceAll(l, w, strings.ReplaceAll(w, ".", " "))
			}
			return l
		})
	}},
	{"error-typed-by-enum", func(d *RIDL) bool {
		ch := false
		for i := range d.Members {
			m := &d.Members[i]
			if m.Kind == "error" && m.Type != nil && m.Type.Kind == "enum" {
				st := &RType{Kind: "struct"}
				for _, f := range m.Type.Fields {
					st.Fields = append(st.Fields, RField{Name: f.Name, Type: T("string")})
				}
				m.Type = st
				ch = true
			}
		}
		return ch
	}},
	{"error-typed-by-optional", func(d *RIDL) bool {
		ch := false
		for i := range d.Members {
			m := &d.Members[i]
			if m.Kind == "error" && m.Type != nil && m.Type.Kind == "maybe" {
				m.Type = TStruct(F("v", m.Type))
				ch = true
			}
		}
		return ch
	}},
	{"error-field-named-error", func(d *RIDL) bool {
		ch := false
		for i := range d.Members {
			m := &d.Members[i]
			if m.Kind == "error" && m.Type != nil && m.Type.Kind == "struct" {
				for j := range m.Type.Fields {
					if m.Type.Fields[j].Name == "error" {
						m.Type.Fields[j].Name = "error_"
						ch = true
					}
				}
			}
		}
		return ch
	}},
	{"optional-struct-parameter", func(d *RIDL) bool {
		ch := false
		topFields(d, func(fl *RField) {
			if fl.Type != nil && fl.Type.Kind == "maybe" && hasTaggedStruct(fl.Type) {
				fl.Type = fl.Type.Elem
				ch = true
			}
		})
		return ch
	}},
}

func symptomOf(key string) string { return strings.SplitN(key, " features=", 2)[0] }

// attribute explains a failure by triggers: returns the list of (key, msg) to report for this case.
func (e *c07Env) attribute(c c07Case, msg, key string) [][2]string {
	var out [][2]string
	if c.Tree == nil {
		return [][2]string{{key, msg}}
	}
	cur := cloneIDL(c.Tree)
	curMsg, curKey := msg, key
	for _, t := range c07Triggers {
		next := cloneIDL(cur)
		if !t.repair(next) {
			continue
		}
		nc := c07Case{Tree: next, Docs: c.Docs, Name: next.Name, Features: treeFeatures(next)}
		nc.Text = nc.render()
		m2, k2, _, _ := e.judge(nc)
		if k2 == "not-accepted" {
			continue // the repair left the domain: not usable
		}
		if symptomOf(k2) != symptomOf(curKey) {
			// repairing this feature removes (or changes) the symptom: the feature is what triggers it
			out = append(out, [2]string{"trigger=" + t.name + " " + symptomOf(curKey), curMsg})
			cur, curMsg, curKey = next, m2, k2
			if m2 == "" {
				return out
			}
		} else {
			cur = next
		}
	}
	if curMsg != "" {
		out = append(out, [2]string{curKey, curMsg})
	}
	return out
}

var goKeywordFields = []string{"type", "func", "go", "range", "map", "interface", "select", "chan", "var", "error", "package", "import", "return", "defer", "struct", "string", "int", "bool", "nil", "true", "len", "append", "new", "make", "json", "fmt", "context", "varlink"}
var generatorLocalFields = []string{"in", "out", "c", "ctx", "m", "s", "e", "err", "err_", "flags", "receive", "call", "conn", "param", "methodname", "b", "errorRawParameters"}

func typeFeatures(pos string, t *RType, depth int, fs map[string]bool) {
	if t == nil {
		return
	}
	switch t.Kind {
	case "maybe":
		fs[pos+":maybe("+t.Elem.Kind+")"] = true
	case "array", "map":
		if t.Elem.Kind == "maybe" || t.Elem.Kind == "struct" || t.Elem.Kind == "enum" {
			fs[pos+":"+t.Kind+"("+t.Elem.Kind+")"] = true
		}
	}
	typeFeatures(pos, t.Elem, depth+1, fs)
	for _, f := range t.Fields {
		typeFeatures(pos, f.Type, depth+1, fs)
	}
}

func treeFeatures(d *RIDL) []string {
	fs := map[string]bool{}
	if strings.Contains(d.Name, "-") {
		fs["name:dash"] = true
	}
	if strings.ToLower(d.Name) != d.Name {
		fs["name:upper"] = true
	}
	for _, m := range d.Members {
		switch m.Kind {
		case "error":
			if m.Type == nil {
				fs["error:typeless"] = true
			} else if m.Type.Kind == "enum" {
				fs["error:enum"] = true
			} else if m.Type.Kind != "struct" {
				fs["error:"+m.Type.Kind] = true
			} else {
				for _, f := range m.Type.Fields {
					typeFeatures("errfield", f.Type, 0, fs)
				}
			}
		case "method":
			for _, f := range m.In.Fields {
				typeFeatures("in", f.Type, 0, fs)
			}
			for _, f := range m.Out.Fields {
				typeFeatures("out", f.Type, 0, fs)
			}
		case "type":
			typeFeatures("alias", m.Type, 0, fs)
		}
		for _, l := range m.Doc {
			for _, w := range []string{"json.RawMessage", "fmt.Sprintf", "context.Context", "@IMPORTS@", "`", "*/"} {
				if strings.Contains(l, w) {
					fs["doc:"+w] = true
				}
			}
		}
	}
	for _, l := range d.Doc {
		for _, w := range []string{"json.RawMessage", "fmt.Sprintf", "context.Context", "@IMPORTS@", "`", "*/"} {
			if strings.Contains(l, w) {
				fs["doc:"+w] = true
			}
		}
	}
	var out []string
	for k := range fs {
		out = append(out, k)
	}
	sort.Strings(out)
	return out
}

func c07Cases(tier string) []c07Case {
	depth := 2
	if tier == "thorough" {
		depth = 3
	}
	var out []c07Case
	seen := map[string]bool{}
	pre, post := "", ""
	add := func(d *RIDL, withDocs bool, extra ...string) {
		var text string
		if withDocs {
			text = renderDocs(d, "", false, "")
		} else {
			text = render(pieces(d), nil)
		}
		text = pre + strings.TrimRight(text, "\n") + post
		if post == "" {
			text += "\n"
		}
		if seen[text] {
			return
		}
		seen[text] = true
		out = append(out, c07Case{Text: text, Name: d.Name, Features: append(treeFeatures(d), extra...), Tree: d, Docs: withDocs})
	}
	// (a) every type expression at every position, member-list shapes, name forms (the C05 tree set)
	for _, d := range treeSet(depth) {
		if d.Name == "org.varlink.service" {
			continue
		}
		add(d, false)
	}
	b := baseMembers()
	// (b) interface names
	names := []string{"a.b", "A.Bc", "a.b-c", "a.b-c.d0", "xn--a.b", "a.b.c.d.e.f", "a1.b2", "org.example.Go", "a.type", "a.func", "a.b.varlink", "a.b.json", "a.b.fmt", "a.b.context", "go.go", "a.main", "a.init"}
	// names whose last word means something to the go tool when it ends a file name (the output file is named
	// after the package): these are always compiled under the file name the generator chose
	for _, n := range []string{"com.example.unit-test", "a.unit.test", "a.b_x", "org.x.for-windows", "a.runtime-wasm", "a.b-amd64", "a.linux", "a.b-linux-arm64", "a.js", "a.b-c-test"} {
		add(&RIDL{Name: n, Members: b}, false, "filename")
	}
	for _, n := range names {
		add(&RIDL{Name: n, Members: b}, false)
		add(&RIDL{Name: n, Members: []RMember{b[0], {Kind: "method", Name: "M", In: TStruct(F("x", T("object")), F("y", TAlias("T0"))), Out: TStruct(F("z", TArr(T("string"))))}, {Kind: "error", Name: "E", Type: TStruct(F("reason", T("string")))}}}, false)
	}
	// (c) field names: Go keywords, predeclared identifiers, package names the output imports, generator-local identifiers
	for _, fn := range append(append([]string(nil), goKeywordFields...), generatorLocalFields...) {
		for _, ft := range []*RType{T("int"), TStruct(F(fn, T("string"))), TArr(TStruct(F(fn, T("bool")))), TMaybe(T("string")), T("object")} {
			add(&RIDL{Name: "a.b", Members: []RMember{b[0], {Kind: "method", Name: "M", In: TStruct(F(fn, ft)), Out: TStruct()}}}, false, "fieldname")
			add(&RIDL{Name: "a.b", Members: []RMember{b[0], {Kind: "method", Name: "M", In: TStruct(), Out: TStruct(F(fn, ft))}}}, false, "fieldname")
			add(&RIDL{Name: "a.b", Members: []RMember{b[0], {Kind: "method", Name: "M", In: TStruct(F(fn, ft)), Out: TStruct(F(fn, ft))}}}, false, "fieldname")
			add(&RIDL{Name: "a.b", Members: []RMember{b[0], b[1], {Kind: "error", Name: "E", Type: TStruct(F(fn, ft))}}}, false, "fieldname")
			add(&RIDL{Name: "a.b", Members: []RMember{b[0], {Kind: "type", Name: "T1", Type: TStruct(F(fn, ft))}, b[1]}}, false, "fieldname")
		}
		// two fields of one list drawn from the same set (distinct names)
		add(&RIDL{Name: "a.b", Members: []RMember{{Kind: "method", Name: "M", In: TStruct(F(fn, T("int")), F("x", T("int"))), Out: TStruct(F("x", T("int")), F(fn, T("int")))}}}, false, "fieldname")
	}
	// (d) documentation texts, on the interface and on every kind of member
	docs := [][]string{{"plain"}, {"a `backtick` here"}, {"``"}, {"ends with `"}, {"*/ closes a comment"}, {"\"quoted\" and \\ backslash"}, {"mentions fmt.Sprintf only"}, {"mentions json.RawMessage only"}, {"mentions context.Context only"}, {"@IMPORTS@"}, {"two", "lines"}, {"", "blank first"}, {"blank last", ""}, {"a", "", "b", ""}, {"", ""}, {"é😀"}, {"\tTabbed"}, {"load in %"}, {"100% sure"}, {`"%d" and %s and %v`}, {"%%"}, {"%!x(MISSING)"}, {"$1 ${name} \\1"}, {"{{.Name}}"}}
	for _, doc := range docs {
		plain := []RMember{{Kind: "type", Name: "T0", Type: TStruct(F("x", T("int")))}, {Kind: "method", Name: "M", In: TStruct(), Out: TStruct()}, {Kind: "error", Name: "E", Type: TStruct(F("r", T("string")))}}
		add(&RIDL{Name: "a.b", Doc: doc, Members: plain}, true)
		for i := range plain {
			ms := append([]RMember(nil), plain...)
			ms[i].Doc = doc
			add(&RIDL{Name: "a.b", Members: ms}, true)
			// the same text in a description that does need the import otherwise
			ms2 := append([]RMember(nil), ms...)
			ms2 = append(ms2, RMember{Kind: "method", Name: "N", In: TStruct(F("o", T("object"))), Out: TStruct(F("p", T("object")))})
			add(&RIDL{Name: "a.b", Members: ms2}, true)
		}
		// no method has parameters, no error has fields: none of the optional imports is needed
		add(&RIDL{Name: "a.b", Doc: doc, Members: []RMember{{Kind: "method", Name: "M", In: TStruct(), Out: TStruct(), Doc: doc}}}, true)
	}
	// error types that are not parenthesised field lists (the parser accepts any type after an error's name)
	for _, et := range []*RType{TEnum("a", "b"), TEnum("a"), T("int"), T("string"), T("object"), TAlias("T0"), TArr(T("int")), TMap(T("string")), TMaybe(T("int"))} {
		add(&RIDL{Name: "a.b", Members: []RMember{b[0], b[1], {Kind: "error", Name: "E", Type: et}}}, false)
	}
	// a non-empty anonymous struct under two type constructors, at every position (a conversion that looks one
	// level deep is not enough for these)
	inner := TStruct(F("name", T("string")), F("n", TMaybe(T("int"))))
	for _, t2 := range []*RType{TArr(TArr(inner)), TArr(TMaybe(inner)), TMap(TArr(inner)), TArr(TMap(inner)), TMap(TMaybe(inner)), TMaybe(TArr(inner)), TMaybe(TMap(inner)), TMap(TMap(inner)), TArr(TArr(TArr(inner)))} {
		add(&RIDL{Name: "a.b", Members: []RMember{b[0], {Kind: "method", Name: "M", In: TStruct(F("items", t2)), Out: TStruct()}}}, false, "nested2")
		add(&RIDL{Name: "a.b", Members: []RMember{b[0], {Kind: "method", Name: "M", In: TStruct(), Out: TStruct(F("items", t2), F("k", T("int")))}}}, false, "nested2")
		add(&RIDL{Name: "a.b", Members: []RMember{b[0], b[1], {Kind: "error", Name: "E", Type: TStruct(F("items", t2))}}}, false, "nested2")
		add(&RIDL{Name: "a.b", Members: []RMember{b[0], {Kind: "type", Name: "T1", Type: TStruct(F("items", t2))}, {Kind: "method", Name: "M", In: TStruct(F("x", TAlias("T1"))), Out: TStruct(F("y", TArr(TAlias("T1"))))}}}, false, "nested2")
	}
	// records nested 4..10 deep (alone and below arrays/maps/optionals), at every position
	for depth := 4; depth <= 10; depth++ {
		for variant := 0; variant < 2; variant++ {
			t := TStruct(F("leaf", T("int")))
			for i := 0; i < depth; i++ {
				inner := t
				if variant == 1 {
					inner = []*RType{TArr(t), TMap(t), TMaybe(t)}[i%3]
				}
				t = TStruct(F(fmt.Sprintf("l%d", i), inner))
			}
			add(&RIDL{Name: "a.b", Members: []RMember{b[0], {Kind: "method", Name: "M", In: TStruct(F("deep", t)), Out: TStruct()}}}, false, "deep")
			add(&RIDL{Name: "a.b", Members: []RMember{b[0], {Kind: "method", Name: "M", In: TStruct(), Out: TStruct(F("deep", t))}}}, false, "deep")
			add(&RIDL{Name: "a.b", Members: []RMember{b[0], b[1], {Kind: "error", Name: "E", Type: TStruct(F("deep", t))}}}, false, "deep")
			add(&RIDL{Name: "a.b", Members: []RMember{b[0], {Kind: "type", Name: "T1", Type: t}, b[1]}}, false, "deep")
		}
	}
	// very long lines (a tool-written enum of thousands of values on one line, a documentation line of 70 KB, a method
	// with thousands of parameters): sizes beyond the 64 KiB token limits of line-oriented readers
	for _, n := range []int{600, 9000} {
		var vals []string
		var fs []RField
		for i := 0; i < n; i++ {
			vals = append(vals, fmt.Sprintf("value%05d", i))
			fs = append(fs, F(fmt.Sprintf("field%05d", i), T("int")))
		}
		add(&RIDL{Name: "a.b", Members: []RMember{{Kind: "type", Name: "Big", Type: TEnum(vals...)}, b[1]}}, false, "long-line")
		add(&RIDL{Name: "a.b", Members: []RMember{b[0], {Kind: "method", Name: "M", In: TStruct(fs...), Out: TStruct()}}}, false, "long-line")
		add(&RIDL{Name: "a.b", Doc: []string{strings.Repeat("long ", n*3)}, Members: []RMember{b[0], {Kind: "method", Name: "M", In: TStruct(), Out: TStruct(), Doc: []string{"m", strings.Repeat("x", n*12)}}}}, true, "long-line")
	}
	// recursive and mutually recursive aliases (legal varlink), used and unused
	node := RMember{Kind: "type", Name: "Node", Type: TStruct(F("name", T("string")), F("children", TArr(TAlias("Node"))))}
	nodeOpt := RMember{Kind: "type", Name: "Node", Type: TStruct(F("next", TMaybe(TAlias("Node"))))}
	na := RMember{Kind: "type", Name: "Node", Type: TStruct(F("attrs", TMap(TAlias("Attr"))))}
	at := RMember{Kind: "type", Name: "Attr", Type: TStruct(F("owner", TMaybe(TAlias("Node"))), F("v", T("object")))}
	useNode := RMember{Kind: "method", Name: "M", In: TStruct(F("n", TAlias("Node"))), Out: TStruct(F("r", TArr(TAlias("Node"))))}
	for _, ms := range [][]RMember{{node, useNode}, {nodeOpt, useNode}, {na, at, useNode}, {at, na, useNode}, {node, b[1]}, {na, at, b[1], {Kind: "error", Name: "E", Type: TStruct(F("n", TAlias("Node")))}}} {
		add(&RIDL{Name: "a.b", Members: ms}, false, "recursive-alias")
	}
	// leading and trailing blanks of the description text (it must be reported verbatim up to trailing newlines)
	for _, pp := range [][2]string{{"\n", "\n"}, {" ", "\n"}, {"\n\n# c\n", "\n"}, {"", " \n"}, {"", "\t"}, {"", "\n\n\n"}, {"", "\n# trailing comment"}, {"", "\n# trailing comment\n"}, {"\t", " "}, {"", ""}} {
		pre, post = pp[0], pp[1]
		add(&RIDL{Name: "a.b", Members: b}, false, "text-blanks")
		add(&RIDL{Name: "a.b", Doc: []string{"d"}, Members: []RMember{b[0], {Kind: "method", Name: "M", In: TStruct(F("o", T("object"))), Out: TStruct(), Doc: []string{"m"}}}}, true, "text-blanks")
	}
	pre, post = "", ""
	// (e) 1-3 methods sharing field names and types, several errors
	m1 := RMember{Kind: "method", Name: "M", In: TStruct(F("a", T("int")), F("b", T("string"))), Out: TStruct(F("a", T("int")))}
	m2 := RMember{Kind: "method", Name: "N", In: TStruct(F("a", TArr(T("int")))), Out: TStruct(F("a", TMap(T("string"))), F("b", TMaybe(T("int"))))}
	m3 := RMember{Kind: "method", Name: "Oo9", In: TStruct(), Out: TStruct(F("r", TAlias("T0")))}
	e1 := RMember{Kind: "error", Name: "E", Type: TStruct()}
	e2 := RMember{Kind: "error", Name: "Ee", Type: TStruct(F("a", T("int")), F("b", TArr(T("string"))))}
	for _, ms := range [][]RMember{{m1}, {m1, m2}, {b[0], m1, m2, m3}, {b[0], m3, e1}, {b[0], m1, e1, e2, m2}, {e1, e2, m1}, {b[0], m3, m2, m1, e2}} {
		add(&RIDL{Name: "a.b", Members: ms}, false)
	}
	return out
}

// ---- judging one description ----

type c07Env struct {
	g  *genServer
	tc *typeChecker
}

var identRe = regexp.MustCompile(`^[A-Za-z_][A-Za-z0-9_]*$`)

func alnumLower(s string) string {
	var sb strings.Builder
	for _, r := range strings.ToLower(s) {
		if (r >= 'a' && r <= 'z') || (r >= '0' && r <= '9') {
			sb.WriteRune(r)
		}
	}
	return sb.String()
}

func errClass(msg string) string {
	// strip position and identifiers: keep the kind of compiler complaint
	if i := strings.Index(msg, ": "); i >= 0 && strings.HasPrefix(msg, "gen.go") {
		msg = msg[i+2:]
	}
	for _, k := range []string{"imported and not used", "cannot use", "undefined", "redeclared", "declared and not used", "missing return", "cannot convert", "invalid operation", "has no field or method", "expected", "duplicate", "not a type", "is not a type"} {
		if strings.Contains(msg, k) {
			return k
		}
	}
	if len(msg) > 40 {
		msg = msg[:40]
	}
	return msg
}

// judgeC07 returns msg, key ("" = holds) and the generator output (nil if none) for the build stage.
func (e *c07Env) judge(c c07Case) (msg, key string, out []byte, pkg string) {
	tree, perr, pp := parse(c.Text)
	if pp != "" || perr != nil || tree == nil {
		return "", "not-accepted", nil, ""
	}
	feat := strings.Join(c.Features, ",")
	r1 := e.g.gen(c.Text)
	if r1.Hang {
		return "the generator did not answer within 120 s", "symptom=generator-hang features=" + feat, nil, ""
	}
	if r1.Panic != "" {
		return "the generator crashed: " + short(r1.Panic), "symptom=generator-crash features=" + feat, nil, ""
	}
	if r1.Err != "" {
		return "the generator failed on a description the parser accepts: " + short(r1.Err), "symptom=generator-error features=" + feat, nil, ""
	}
	r2 := e.g.gen(c.Text)
	if r2.Panic != "" || r2.Err != "" || r2.Hang || r2.Pkg != r1.Pkg || !bytes.Equal(r1.Out, r2.Out) {
		return "two generations of the same description differ", "symptom=nondeterministic-output features=" + feat, nil, ""
	}
	ck := e.tc.check(r1.Out)
	if ck.ParseErr != "" {
		return "the output is not Go source: " + short(ck.ParseErr), "symptom=output-does-not-parse features=" + feat, r1.Out, r1.Pkg
	}
	if len(ck.TypeErrs) > 0 {
		return fmt.Sprintf("the output does not type-check against package varlink: %s", short(strings.Join(ck.TypeErrs, "; "))), "symptom=does-not-compile error=" + errClass(ck.TypeErrs[0]) + " features=" + feat, r1.Out, r1.Pkg
	}
	if ck.Pkg != r1.Pkg || !identRe.MatchString(ck.Pkg) || token.IsKeyword(ck.Pkg) || alnumLower(ck.Pkg) != alnumLower(tree.Name) {
		return fmt.Sprintf("package clause %q (reported %q) is not derived from the interface name %q", ck.Pkg, r1.Pkg, tree.Name), "symptom=package-name features=" + feat, r1.Out, r1.Pkg
	}
	if !ck.NameOK || ck.Name != tree.Name {
		return fmt.Sprintf("VarlinkGetName returns %q (constant=%v), the interface is %q", ck.Name, ck.NameOK, tree.Name), "symptom=reported-name features=" + feat, r1.Out, r1.Pkg
	}
	if !ck.DescOK || strings.TrimRight(ck.Desc, "\n") != strings.TrimRight(c.Text, "\n") {
		return fmt.Sprintf("VarlinkGetDescription returns %q (constant=%v), the description is %q", short(ck.Desc), ck.DescOK, short(c.Text)), "symptom=reported-description features=" + feat, r1.Out, r1.Pkg
	}
	return "", "", r1.Out, r1.Pkg
}

// realBinary runs the generator binary as a process on a real file: exit status, exactly one new file named
// after the package, same bytes as the in-process generation.
func realBinary(dir string, c c07Case, want []byte, pkg string) string {
	os.RemoveAll(dir)
	os.MkdirAll(dir, 0o755)
	src := filepath.Join(dir, "in.varlink")
	os.WriteFile(src, []byte(c.Text), 0o644)
	cmd := exec.Command(os.Getenv("VX_HG"), src)
	cmd.Env = os.Environ()
	outb, err := cmd.CombinedOutput()
	if err != nil {
		return fmt.Sprintf("the generator binary exited with %v: %s", err, short(string(outb)))
	}
	ents, _ := os.ReadDir(dir)
	var files []string
	for _, en := range ents {
		if en.Name() != "in.varlink" {
			files = append(files, en.Name())
		}
	}
	if len(files) != 1 || files[0] != pkg+".go" {
		return fmt.Sprintf("the generator binary wrote %v, want exactly %s.go", files, pkg)
	}
	got, _ := os.ReadFile(filepath.Join(dir, files[0]))
	if !bytes.Equal(got, want) {
		return "the file written by the generator binary differs from generateTemplate's output for the same text"
	}
	// regeneration (what go generate does after the description was edited): the directory already holds an
	// output file for this package - a longer one, a shorter one, an identical one - and an unrelated file;
	// the result must be the same bytes as into an empty directory, and the unrelated file stays as it is
	other := filepath.Join(dir, "zz_other.go")
	os.WriteFile(other, []byte("package other\n"), 0o644)
	for _, old := range [][]byte{append(append([]byte(nil), want...), bytes.Repeat([]byte("\nfunc stale( {{{\n"), 300)...), want[:len(want)/2], want, {}} {
		os.WriteFile(filepath.Join(dir, files[0]), old, 0o644)
		cmd := exec.Command(os.Getenv("VX_HG"), src)
		cmd.Env = os.Environ()
		if outb, err := cmd.CombinedOutput(); err != nil {
			return fmt.Sprintf("regenerating over an existing %d-byte output file: the generator binary exited with %v: %s", len(old), err, short(string(outb)))
		}
		got, _ := os.ReadFile(filepath.Join(dir, files[0]))
		if !bytes.Equal(got, want) {
			return fmt.Sprintf("regenerating over an existing %d-byte output file leaves %d bytes that differ from the %d bytes generated into an empty directory (same input, different bytes)", len(old), len(got), len(want))
		}
	}
	if b, _ := os.ReadFile(other); string(b) != "package other\n" {
		return "the generator binary changed a file that is not its output"
	}
	ents, _ = os.ReadDir(dir)
	if len(ents) != 3 {
		return fmt.Sprintf("after regenerating, the directory holds %d entries, want in.varlink, the output and the unrelated file", len(ents))
	}
	return ""
}

// goBuild writes the outputs as packages of one scratch module and runs the real `go build ./...`;
// returns the set of package directories with compile errors.
func goBuild(dir string, outs map[string][]byte, files map[string]string) (failed map[string]string, infra string) {
	os.RemoveAll(dir)
	os.MkdirAll(dir, 0o755)
	os.WriteFile(filepath.Join(dir, "go.mod"), []byte("module gen\n\ngo 1.13\n\nrequire github.com/varlink/go v0.0.0\n\nreplace github.com/varlink/go => /repo\n"), 0o644)
	for name, src := range outs {
		os.MkdirAll(filepath.Join(dir, name), 0o755)
		fn := files[name] // the file name the generator gives its output: <package name>.go
		if fn == "" {
			fn = "gen.go"
		}
		os.WriteFile(filepath.Join(dir, name, fn), src, 0o644)
	}
	// every package is named explicitly: a package matched only by a wildcard is skipped in silence when the go
	// tool leaves all its files out
	args := []string{"build", "-overlay", os.Getenv("VX_OVERLAY")}
	var pkgs []string
	for name := range outs {
		pkgs = append(pkgs, "./"+name)
	}
	sort.Strings(pkgs)
	cmd := exec.Command("go", append(args, pkgs...)...)
	cmd.Dir = dir
	cmd.Env = os.Environ()
	b, err := cmd.CombinedOutput()
	failed = map[string]string{}
	if err == nil {
		return failed, ""
	}
	re := regexp.MustCompile(`(?m)^(?:\./)?(p[0-9]+)/[^/:\s]+\.go:[0-9]+:[0-9]+: (.*)$`)
	for _, m := range re.FindAllStringSubmatch(string(b), -1) {
		if _, ok := failed[m[1]]; !ok {
			failed[m[1]] = m[2]
		}
	}
	// a package whose only file the go tool leaves out (name ends in _test, _<GOOS>, _<GOARCH>) has no diagnostic position
	re2 := regexp.MustCompile(`(?m)^(?:package )?gen/(p[0-9]+): (build constraints exclude all Go files|no non-test Go files|no Go files)`)
	for _, m := range re2.FindAllStringSubmatch(string(b), -1) {
		if _, ok := failed[m[1]]; !ok {
			failed[m[1]] = "the go tool does not compile the file under the name the generator gave it: " + m[2]
		}
	}
	if len(failed) == 0 {
		return nil, "go build failed without a package diagnostic: " + short(string(b))
	}
	return failed, ""
}

func runC07(tier string, r *Result) {
	cases := c07Cases(tier)
	tc, err := newTypeChecker()
	if err != nil {
		r.Infra = err.Error()
		return
	}
	env := &c07Env{g: &genServer{}, tc: tc}
	defer env.g.stop()
	scratch, _ := filepath.Abs(fmt.Sprintf("c07-%d", *flagShard))
	defer os.RemoveAll(scratch)
	buildEvery := 24
	if tier == "thorough" {
		buildEvery = 6
	}
	type built struct {
		c        c07Case
		typeOK   bool
		typeMsg  string
		reported bool
	}
	builds := map[string][]byte{}
	buildFiles := map[string]string{}
	meta := map[string]*built{}
	mineN := 0
	for i, c := range cases {
		if !r.mine(i) || r.expired() {
			continue
		}
		mineN++
		msg, key, out, pkg := env.judge(c)
		r.Executions++
		r.Nodes++
		r.Steps += len(c.Text)
		r.distinct(c.Text)
		if key == "not-accepted" {
			r.outcome("outside the domain: parser rejects")
			continue
		}
		if msg != "" {
			for _, km := range env.attribute(c, msg, key) {
				r.outcome("violation " + symptomOf(km[0]))
				r.violation(km[0], km[1], c)
			}
		} else {
			r.outcome("ok " + strings.Join(c.Features, ","))
			r.sample(c.Text)
		}
		forced := false
		for _, f := range c.Features {
			if f == "filename" {
				forced = true
			}
		}
		if out != nil && (mineN%buildEvery == 0 || forced) {
			// stratified subset: real binary on a real file, and the real go build
			if msg == "" {
				if m := realBinary(filepath.Join(scratch, "bin"), c, out, pkg); m != "" {
					r.violation("symptom=binary-run features="+strings.Join(c.Features, ","), m, c)
				}
				r.Extra["real_binary_runs"]++
			}
			name := fmt.Sprintf("p%d", len(builds))
			builds[name] = out
			buildFiles[name] = pkg + ".go"
			meta[name] = &built{c: c, typeOK: msg == "" || !strings.Contains(key, "does-not-compile") && !strings.Contains(key, "does-not-parse"), typeMsg: msg}
		}
	}
	if len(builds) > 0 && !r.expired() {
		failed, infra := goBuild(filepath.Join(scratch, "mod"), builds, buildFiles)
		if infra != "" {
			r.Infra = infra
			return
		}
		r.Extra["go_build_packages"] += len(builds)
		for name, b := range meta {
			ferr, bad := failed[name]
			switch {
			case bad && b.typeOK:
				// the compiler rejects what go/types accepted: the property is about the compiler
				r.violation("symptom=does-not-compile(go build) error="+errClass(ferr)+" features="+strings.Join(b.c.Features, ","), "go build rejects the output although go/types accepted it: "+ferr, b.c)
				r.Extra["typecheck_build_disagreements"]++
			case !bad && !b.typeOK:
				r.Infra = "go/types rejected an output that go build accepts (oracle disagreement): " + b.typeMsg
				return
			default:
				r.Extra["typecheck_build_agreements"]++
			}
		}
	}
	r.MaxBound = map[string]int{"quick": 2, "thorough": 3}[tier]
}

func init() {
	props["C07"] = propFn{run: runC07, replay: func(raw json.RawMessage) (string, string) {
		var c c07Case
		json.Unmarshal(raw, &c)
		tc, err := newTypeChecker()
		if err != nil {
			return err.Error(), "infra"
		}
		env := &c07Env{g: &genServer{}, tc: tc}
		defer env.g.stop()
		if c.Tree != nil && c.Text == "" {
			c.Text = c.render()
		}
		msg, key, _, _ := env.judge(c)
		if key == "not-accepted" || msg == "" {
			return "", ""
		}
		kms := env.attribute(c, msg, key)
		return kms[0][1], kms[0][0]
	}, rule: "bounded-exhaustive enumeration of interface descriptions: every type expression of depth <=2 (thorough 3) over all 11 constructors at 5 positions (method input, method output, error parameter, alias body, alias-struct field), all member-list shapes of <=3 members incl. typeless errors, 17 interface-name forms (upper case, dashes, keyword and package-name labels), 45 field names (Go keywords, predeclared identifiers, imported package names, generator-local identifiers) at every position with 5 field types, 14 documentation texts (backticks, comment terminators, quotes, texts mentioning the optional imports, non-ASCII) on the interface and every member kind, 1-3 methods sharing field names; each accepted description is generated twice by the tree's generateTemplate, the output is type-checked by go/types against the export data of the working tree's varlink package, package clause / VarlinkGetName / VarlinkGetDescription are read back (constant-folded from the typed AST); every 24th (thorough 6th) case is also run through the generator binary on a real file and compiled with the real go build, verdicts compared with go/types",
		assume: []string{"domain as stated by the property: resolvable references, distinct field names, struct-typed method parameters, member names not among the generator's fixed identifiers", "go/types stands for the compiler; agreement with `go build` is checked on the stratified subset and a disagreement stops the run"}}
}
