// Package vsync provides drop-in replacements for the parts of package sync the
// library uses. Inside a controlled execution every operation is a scheduling
// point with an enabledness predicate and emits happens-before edges; outside of
// one the real primitives are used.
package vsync

import (
	"sync"

	"vx/vsched"
)

type Locker = sync.Locker

type Mutex struct {
	real   sync.Mutex
	locked bool
}

func (m *Mutex) String() string { return "mutex" }

func (m *Mutex) Lock() {
	if !vsched.Active() {
		m.real.Lock()
		return
	}
	vsched.Yield("lock", m, func() bool { return !m.locked })
	m.locked = true
	vsched.Acquire(m)
}

func (m *Mutex) TryLock() bool {
	if !vsched.Active() {
		return m.real.TryLock()
	}
	vsched.Yield("trylock", m, vsched.Always)
	if m.locked {
		return false
	}
	m.locked = true
	vsched.Acquire(m)
	return true
}

func (m *Mutex) Unlock() {
	if !vsched.Active() {
		m.real.Unlock()
		return
	}
	vsched.Yield("unlock", m, vsched.Always)
	if !m.locked {
		panic("sync: unlock of unlocked mutex")
	}
	vsched.Release(m)
	m.locked = false
}

type RWMutex struct {
	real    sync.RWMutex
	writer  bool
	readers int
}

func (m *RWMutex) String() string { return "rwmutex" }

func (m *RWMutex) Lock() {
	if !vsched.Active() {
		m.real.Lock()
		return
	}
	vsched.Yield("lock", m, func() bool { return !m.writer && m.readers == 0 })
	m.writer = true
	vsched.Acquire(m)
}

func (m *RWMutex) Unlock() {
	if !vsched.Active() {
		m.real.Unlock()
		return
	}
	vsched.Yield("unlock", m, vsched.Always)
	if !m.writer {
		panic("sync: Unlock of unlocked RWMutex")
	}
	vsched.Release(m)
	m.writer = false
}

func (m *RWMutex) RLock() {
	if !vsched.Active() {
		m.real.RLock()
		return
	}
	vsched.Yield("rlock", m, func() bool { return !m.writer })
	m.readers++
	vsched.Acquire(m)
}

func (m *RWMutex) RUnlock() {
	if !vsched.Active() {
		m.real.RUnlock()
		return
	}
	vsched.Yield("runlock", m, vsched.Always)
	if m.readers <= 0 {
		panic("sync: RUnlock of unlocked RWMutex")
	}
	vsched.Release(m)
	m.readers--
}

func (m *RWMutex) RLocker() Locker { return (*rlocker)(m) }

type rlocker RWMutex

func (r *rlocker) Lock()   { (*RWMutex)(r).RLock() }
func (r *rlocker) Unlock() { (*RWMutex)(r).RUnlock() }

// WaitGroupFirstAdd is the race monitor's name for the ordering sync.WaitGroup demands between an Add that takes the
// counter from zero and a Wait.
const WaitGroupFirstAdd = "sync.WaitGroup first Add / Wait"

type WaitGroup struct {
	real sync.WaitGroup
	n    int
}

func (w *WaitGroup) String() string { return "waitgroup" }

func (w *WaitGroup) Add(d int) {
	if !vsched.Active() {
		w.real.Add(d)
		return
	}
	vsched.Yield("wg.add", w, vsched.Always)
	if d > 0 && w.n == 0 {
		// sync.WaitGroup: "calls with a positive delta that occur when the counter is zero must happen before a Wait" -
		// Go's race detector reads wg.sema here and writes it in a Wait that finds the counter above zero
		vsched.AccessNoYield(w, WaitGroupFirstAdd, false, "(*sync.WaitGroup).Add from zero")
	}
	w.n += d
	if w.n < 0 {
		panic("sync: negative WaitGroup counter")
	}
	if d < 0 {
		vsched.Release(w)
	}
}

func (w *WaitGroup) Done() { w.Add(-1) }

func (w *WaitGroup) Wait() {
	if !vsched.Active() {
		w.real.Wait()
		return
	}
	if w.n > 0 {
		vsched.AccessNoYield(w, WaitGroupFirstAdd, true, "(*sync.WaitGroup).Wait with the counter above zero")
	}
	vsched.Yield("wg.wait", w, func() bool { return w.n == 0 })
	vsched.Acquire(w)
}

type Once struct {
	real sync.Once
	done bool
	m    Mutex
}

func (o *Once) Do(f func()) {
	if !vsched.Active() {
		o.real.Do(f)
		return
	}
	o.m.Lock()
	defer o.m.Unlock()
	if !o.done {
		defer func() { o.done = true }()
		f()
	}
}

// Pool is a deterministic stand-in for sync.Pool inside controlled executions: a LIFO free list that never
// drops items (sync.Pool may drop or keep them; keeping is the behaviour that exposes stale state). Put
// happens-before the Get that returns the item, as the Go memory model says.
type Pool struct {
	New   func() interface{}
	real  sync.Pool
	items []interface{}
}

func (p *Pool) String() string { return "pool" }

func (p *Pool) Get() interface{} {
	if !vsched.Active() {
		if x := p.real.Get(); x != nil {
			return x
		}
		if p.New != nil {
			return p.New()
		}
		return nil
	}
	vsched.Yield("pool.get", p, vsched.Always)
	if n := len(p.items); n > 0 {
		x := p.items[n-1]
		p.items = p.items[:n-1]
		vsched.Acquire(p)
		return x
	}
	if p.New != nil {
		return p.New()
	}
	return nil
}

func (p *Pool) Put(x interface{}) {
	if !vsched.Active() {
		p.real.Put(x)
		return
	}
	vsched.Yield("pool.put", p, vsched.Always)
	vsched.Release(p)
	p.items = append(p.items, x)
}

// Map is passed through (no blocking semantics the scheduler must own).
type Map = sync.Map
type Cond = sync.Cond

func NewCond(l Locker) *Cond { return sync.NewCond(l) }
