// Package c08rt is the run-time half of the C08 check: it drives code emitted by the interface generator
// (client stubs, dispatcher, reply helpers) for one description at a time, with values enumerated per
// IDL type, through the real varlink.Connection and varlink.Service.HandleMessage, captures the frames
// in both directions and compares everything with a reference encoding of the varlink JSON mapping.
// The generated packages register themselves through a small generated glue file (zz_verif.go).
package c08rt

import (
	"bytes"
	"context"
	"encoding/json"
	"fmt"
	"io"
	"math"
	"net"
	"os"
	"reflect"
	"runtime/debug"
	"sort"
	"strconv"
	"strings"
	"time"

	"github.com/varlink/go/varlink"
)

// ---- description trees (mirror of the harness's reference trees; decoded from JSON) ----

type RType struct {
	Kind   string
	Elem   *RType
	Alias  string
	Fields []RField
}
type RField struct {
	Name string
	Type *RType
}
type RMember struct {
	Kind string
	Name string
	Type *RType
	In   *RType
	Out  *RType
}
type RIDL struct {
	Name    string
	Members []RMember
	deep    bool // thorough tier: records deviating in two fields, all call modes for every pair
}

func (d *RIDL) alias(n string) *RType {
	for _, m := range d.Members {
		if m.Kind == "type" && m.Name == n {
			return m.Type
		}
	}
	return nil
}

func (d *RIDL) resolve(t *RType) *RType {
	for i := 0; t != nil && t.Kind == "alias" && i < 10; i++ {
		t = d.alias(t.Alias)
	}
	return t
}

// ---- registry filled by the generated glue ----

type Dispatcher interface {
	VarlinkDispatch(ctx context.Context, call varlink.Call, methodname string) error
	VarlinkGetName() string
	VarlinkGetDescription() string
}

// Handler receives every call the generated dispatcher hands to the implementation: the method name, a
// pointer to the generated VarlinkCall and the typed arguments.
type Handler func(method string, ctx context.Context, call interface{}, args []interface{}) error

type Pkg struct {
	Name          string
	NewFull       func(h Handler) Dispatcher
	NewNone       func() Dispatcher
	Methods       map[string]interface{}
	DispatchError func(error) error
}

var registry = map[string]*Pkg{}

func Register(p *Pkg) { registry[p.Name] = p }

// ---- abstract values ----

type Rec []interface{}          // struct, positional
type Arr []interface{}          // array
type Map map[string]interface{} // map
type Opt struct {               // optional
	Set bool
	V   interface{}
}
type Obj string // object: JSON text
type Enum string

func (d *RIDL) values(t *RType, depth int) []interface{} {
	t = d.resolveKeep(t)
	switch t.Kind {
	case "bool":
		return []interface{}{false, true}
	case "int":
		return []interface{}{int64(0), int64(-1), int64(math.MaxInt64), int64(math.MinInt64), int64(9007199254740993)}
	case "float":
		return []interface{}{float64(0), 1.5, -1e300, 1e-7}
	case "string":
		return []interface{}{"", "é\x00😀\"\\", "a"}
	case "object":
		return []interface{}{Obj(`{"a":[1,{"b":null}],"n":9007199254740993}`), Obj(`7`), Obj(`"s"`), Obj(`[]`)}
	case "enum":
		out := []interface{}{Enum(t.Fields[0].Name)}
		if len(t.Fields) > 1 {
			out = append(out, Enum(t.Fields[len(t.Fields)-1].Name))
		}
		return out
	case "alias":
		if depth > 3 {
			return nil
		}
		return d.values(d.alias(t.Alias), depth+1)
	case "maybe":
		out := []interface{}{Opt{}}
		for i, v := range d.values(t.Elem, depth+1) {
			if i < 2 {
				out = append(out, Opt{Set: true, V: v})
			}
		}
		return out
	case "array":
		ev := d.values(t.Elem, depth+1)
		out := []interface{}{Arr{}}
		if len(ev) > 0 {
			out = append(out, Arr{ev[0]})
			out = append(out, Arr{ev[len(ev)-1], ev[0]})
			if len(ev) > 2 {
				out = append(out, Arr{ev[1], ev[2], ev[1]})
			}
		}
		return out
	case "map":
		ev := d.values(t.Elem, depth+1)
		out := []interface{}{Map{}}
		if len(ev) > 0 {
			out = append(out, Map{"": ev[0]})
			out = append(out, Map{"k": ev[len(ev)-1], "é\"": ev[0]})
		}
		return out
	case "struct":
		return d.vectors(t, depth+1)
	}
	return nil
}

// resolveKeep returns t itself (aliases are resolved by values through depth counting).
func (d *RIDL) resolveKeep(t *RType) *RType { return t }

// vectors: the all-default record, then every record deviating from it in one field.
func (d *RIDL) vectors(t *RType, depth int) []interface{} {
	var per [][]interface{}
	for _, f := range t.Fields {
		vs := d.values(f.Type, depth)
		if len(vs) == 0 {
			return nil // a recursive type cut at the depth cap that cannot be given a value
		}
		per = append(per, vs)
	}
	def := make(Rec, len(t.Fields))
	for i := range per {
		def[i] = per[i][0]
	}
	out := []interface{}{def}
	for i := range per {
		for _, v := range per[i][1:] {
			r := append(Rec(nil), def...)
			r[i] = v
			out = append(out, r)
		}
	}
	if d.deep && depth == 0 {
		// every record deviating from the default in two fields (first two alternatives of each)
		for i := range per {
			for j := i + 1; j < len(per); j++ {
				for a := 1; a < len(per[i]) && a <= 2; a++ {
					for b := 1; b < len(per[j]) && b <= 2; b++ {
						r := append(Rec(nil), def...)
						r[i], r[j] = per[i][a], per[j][b]
						out = append(out, r)
					}
				}
			}
		}
	}
	// one record deviating everywhere
	if len(per) > 1 {
		r := make(Rec, len(per))
		for i := range per {
			r[i] = per[i][len(per[i])-1]
		}
		out = append(out, r)
	}
	return out
}

// ---- abstract value <-> Go value of the generated types ----

type shapeErr struct{ msg string }

func (e shapeErr) Error() string { return e.msg }

func (d *RIDL) toGo(rt reflect.Type, t *RType, av interface{}) reflect.Value {
	switch t.Kind {
	case "alias":
		return d.toGo(rt, d.alias(t.Alias), av)
	case "bool":
		v := reflect.New(rt).Elem()
		v.SetBool(av.(bool))
		return v
	case "int":
		v := reflect.New(rt).Elem()
		v.SetInt(av.(int64))
		return v
	case "float":
		v := reflect.New(rt).Elem()
		v.SetFloat(av.(float64))
		return v
	case "string":
		v := reflect.New(rt).Elem()
		v.SetString(av.(string))
		return v
	case "enum":
		v := reflect.New(rt).Elem()
		v.SetString(string(av.(Enum)))
		return v
	case "object":
		if rt.Kind() != reflect.Slice || rt.Elem().Kind() != reflect.Uint8 {
			panic(shapeErr{fmt.Sprintf("object is Go type %v", rt)})
		}
		return reflect.ValueOf([]byte(av.(Obj))).Convert(rt)
	case "maybe":
		if rt.Kind() != reflect.Ptr {
			panic(shapeErr{fmt.Sprintf("optional is Go type %v", rt)})
		}
		o := av.(Opt)
		if !o.Set {
			return reflect.Zero(rt)
		}
		p := reflect.New(rt.Elem())
		p.Elem().Set(d.toGo(rt.Elem(), t.Elem, o.V))
		return p
	case "array":
		if rt.Kind() != reflect.Slice {
			panic(shapeErr{fmt.Sprintf("array is Go type %v", rt)})
		}
		a := av.(Arr)
		s := reflect.MakeSlice(rt, len(a), len(a))
		for i, e := range a {
			s.Index(i).Set(d.toGo(rt.Elem(), t.Elem, e))
		}
		return s
	case "map":
		if rt.Kind() != reflect.Map || rt.Key().Kind() != reflect.String {
			panic(shapeErr{fmt.Sprintf("map is Go type %v", rt)})
		}
		m := reflect.MakeMapWithSize(rt, len(av.(Map)))
		for k, e := range av.(Map) {
			m.SetMapIndex(reflect.ValueOf(k).Convert(rt.Key()), d.toGo(rt.Elem(), t.Elem, e))
		}
		return m
	case "struct":
		if rt.Kind() != reflect.Struct || rt.NumField() != len(t.Fields) {
			panic(shapeErr{fmt.Sprintf("struct with %d fields is Go type %v", len(t.Fields), rt)})
		}
		v := reflect.New(rt).Elem()
		for i, f := range t.Fields {
			v.Field(i).Set(d.toGo(rt.Field(i).Type, f.Type, av.(Rec)[i]))
		}
		return v
	}
	panic(shapeErr{"unknown kind " + t.Kind})
}

func (d *RIDL) fromGo(v reflect.Value, t *RType) interface{} {
	switch t.Kind {
	case "alias":
		return d.fromGo(v, d.alias(t.Alias))
	case "bool":
		return v.Bool()
	case "int":
		return v.Int()
	case "float":
		return v.Float()
	case "string":
		return v.String()
	case "enum":
		return Enum(v.String())
	case "object":
		return Obj(v.Bytes())
	case "maybe":
		if v.Kind() != reflect.Ptr {
			panic(shapeErr{fmt.Sprintf("optional is Go type %v", v.Type())})
		}
		if v.IsNil() {
			return Opt{}
		}
		return Opt{Set: true, V: d.fromGo(v.Elem(), t.Elem)}
	case "array":
		if v.Kind() != reflect.Slice {
			panic(shapeErr{fmt.Sprintf("array is Go type %v", v.Type())})
		}
		a := Arr{}
		for i := 0; i < v.Len(); i++ {
			a = append(a, d.fromGo(v.Index(i), t.Elem))
		}
		return a
	case "map":
		if v.Kind() != reflect.Map {
			panic(shapeErr{fmt.Sprintf("map is Go type %v", v.Type())})
		}
		m := Map{}
		for _, k := range v.MapKeys() {
			m[k.String()] = d.fromGo(v.MapIndex(k), t.Elem)
		}
		return m
	case "struct":
		if v.Kind() != reflect.Struct || v.NumField() != len(t.Fields) {
			panic(shapeErr{fmt.Sprintf("struct with %d fields is Go type %v", len(t.Fields), v.Type())})
		}
		r := Rec{}
		for i, f := range t.Fields {
			r = append(r, d.fromGo(v.Field(i), f.Type))
		}
		return r
	}
	panic(shapeErr{"unknown kind " + t.Kind})
}

func jsonEq(a, b interface{}) bool {
	ab, _ := json.Marshal(a)
	bb, _ := json.Marshal(b)
	return bytes.Equal(ab, bb)
}

func decodeNum(s string) (interface{}, error) {
	dec := json.NewDecoder(strings.NewReader(s))
	dec.UseNumber()
	var v interface{}
	err := dec.Decode(&v)
	return v, err
}

// avEqual compares abstract values (objects as JSON documents, numbers as text; floats exactly).
func avEqual(a, b interface{}) bool {
	switch x := a.(type) {
	case Obj:
		y, ok := b.(Obj)
		if !ok {
			return false
		}
		xv, e1 := decodeNum(string(x))
		yv, e2 := decodeNum(string(y))
		return e1 == nil && e2 == nil && jsonEq(xv, yv)
	case Opt:
		y, ok := b.(Opt)
		if !ok || x.Set != y.Set {
			return false
		}
		return !x.Set || avEqual(x.V, y.V)
	case Arr:
		y, ok := b.(Arr)
		if !ok || len(x) != len(y) {
			return false
		}
		for i := range x {
			if !avEqual(x[i], y[i]) {
				return false
			}
		}
		return true
	case Rec:
		y, ok := b.(Rec)
		if !ok || len(x) != len(y) {
			return false
		}
		for i := range x {
			if !avEqual(x[i], y[i]) {
				return false
			}
		}
		return true
	case Map:
		y, ok := b.(Map)
		if !ok || len(x) != len(y) {
			return false
		}
		for k, v := range x {
			w, ok := y[k]
			if !ok || !avEqual(v, w) {
				return false
			}
		}
		return true
	}
	return reflect.DeepEqual(a, b)
}

func show(av interface{}) string {
	s := fmt.Sprintf("%#v", av)
	s = strings.ReplaceAll(s, "c08rt.", "")
	s = strings.ReplaceAll(s, "interface {}", "")
	if len(s) > 300 {
		s = s[:300] + "..."
	}
	return s
}

// ---- reference mapping IDL value -> JSON: match a decoded JSON value (numbers as json.Number) ----

func (d *RIDL) match(path string, t *RType, av interface{}, j interface{}) string {
	switch t.Kind {
	case "alias":
		return d.match(path, d.alias(t.Alias), av, j)
	case "bool":
		if b, ok := j.(bool); !ok || b != av.(bool) {
			return fmt.Sprintf("%s: JSON %s, want bool %v", path, jstr(j), av)
		}
	case "int":
		n, ok := j.(json.Number)
		if !ok || string(n) != strconv.FormatInt(av.(int64), 10) {
			return fmt.Sprintf("%s: JSON %s, want int %d", path, jstr(j), av.(int64))
		}
	case "float":
		n, ok := j.(json.Number)
		if !ok {
			return fmt.Sprintf("%s: JSON %s, want float %v", path, jstr(j), av)
		}
		f, err := strconv.ParseFloat(string(n), 64)
		if err != nil || f != av.(float64) {
			return fmt.Sprintf("%s: JSON %s, want float %v", path, jstr(j), av)
		}
	case "string":
		if s, ok := j.(string); !ok || s != av.(string) {
			return fmt.Sprintf("%s: JSON %s, want string %q", path, jstr(j), av)
		}
	case "enum":
		if s, ok := j.(string); !ok || s != string(av.(Enum)) {
			return fmt.Sprintf("%s: JSON %s, want enum string %q", path, jstr(j), av)
		}
	case "object":
		w, _ := decodeNum(string(av.(Obj)))
		if !jsonEq(j, w) {
			return fmt.Sprintf("%s: JSON %s, want the document %s", path, jstr(j), av)
		}
	case "maybe":
		o := av.(Opt)
		if !o.Set {
			if j != nil {
				return fmt.Sprintf("%s: JSON %s, want null/absent", path, jstr(j))
			}
			return ""
		}
		return d.match(path, t.Elem, o.V, j)
	case "array":
		l, ok := j.([]interface{})
		a := av.(Arr)
		if !ok || len(l) != len(a) {
			return fmt.Sprintf("%s: JSON %s, want an array of %d", path, jstr(j), len(a))
		}
		for i := range a {
			if m := d.match(fmt.Sprintf("%s[%d]", path, i), t.Elem, a[i], l[i]); m != "" {
				return m
			}
		}
	case "map":
		o, ok := j.(map[string]interface{})
		mp := av.(Map)
		if !ok || len(o) != len(mp) {
			return fmt.Sprintf("%s: JSON %s, want an object with %d entries", path, jstr(j), len(mp))
		}
		for k, v := range mp {
			jv, ok := o[k]
			if !ok {
				return fmt.Sprintf("%s: key %q missing in %s", path, k, jstr(j))
			}
			if m := d.match(path+"["+strconv.Quote(k)+"]", t.Elem, v, jv); m != "" {
				return m
			}
		}
	case "struct":
		o, ok := j.(map[string]interface{})
		if !ok {
			return fmt.Sprintf("%s: JSON %s, want an object", path, jstr(j))
		}
		known := map[string]bool{}
		for i, f := range t.Fields {
			known[f.Name] = true
			jv, present := o[f.Name]
			ft := d.resolve(f.Type)
			if !present {
				if ft != nil && ft.Kind == "maybe" && !av.(Rec)[i].(Opt).Set {
					continue
				}
				return fmt.Sprintf("%s: member %q missing in %s", path, f.Name, jstr(j))
			}
			if m := d.match(path+"."+f.Name, f.Type, av.(Rec)[i], jv); m != "" {
				return m
			}
		}
		for k := range o {
			if !known[k] {
				return fmt.Sprintf("%s: unknown member %q in %s", path, k, jstr(j))
			}
		}
	}
	return ""
}

func jstr(v interface{}) string {
	b, _ := json.Marshal(v)
	if len(b) > 200 {
		return string(b[:200]) + "..."
	}
	return string(b)
}

// ---- in-process transport: client writes are handed to Service.HandleMessage, replies are read back ----

type capWriter struct{ l *loop }

func (c *capWriter) Write(ctx context.Context, b []byte) (int, error) {
	c.l.repAll.Write(b)
	if c.l.explicitEmpty && string(b) == "{}\x00" {
		// the peer spells a reply without values the other legal way (what services written in other languages send)
		b = []byte("{\"parameters\":{}}\x00")
	}
	c.l.rep.Write(b)
	return len(b), nil
}
func (c *capWriter) Read(ctx context.Context, b []byte) (int, error)        { return 0, io.EOF }
func (c *capWriter) ReadBytes(ctx context.Context, d byte) ([]byte, error) { return nil, io.EOF }

type loop struct {
	svc     *varlink.Service
	req     bytes.Buffer // bytes from the client not yet handed to the service
	reqAll  bytes.Buffer // everything the client wrote
	rep     bytes.Buffer // bytes from the service not yet read by the client
	repAll  bytes.Buffer // everything the service wrote
	hmErrs  []string     // errors returned by HandleMessage
	pumping bool
	// explicitEmpty: a reply frame "{}" reaches the client as {"parameters":{}}
	explicitEmpty bool
}

func (l *loop) pump() {
	if l.pumping {
		return
	}
	l.pumping = true
	defer func() { l.pumping = false }()
	for {
		b := l.req.Bytes()
		i := bytes.IndexByte(b, 0)
		if i < 0 {
			return
		}
		frame := append([]byte(nil), b[:i]...)
		l.req.Next(i + 1)
		if err := l.svc.HandleMessage(context.Background(), &capWriter{l}, frame); err != nil {
			l.hmErrs = append(l.hmErrs, err.Error())
		}
	}
}

type addr struct{}

func (addr) Network() string { return "loop" }
func (addr) String() string  { return "loop" }

func (l *loop) Read(b []byte) (int, error) {
	if l.rep.Len() == 0 {
		l.pump()
	}
	if l.rep.Len() == 0 {
		return 0, io.EOF
	}
	return l.rep.Read(b)
}
func (l *loop) Write(b []byte) (int, error) {
	l.req.Write(b)
	l.reqAll.Write(b)
	return len(b), nil
}
func (l *loop) Close() error                       { return nil }
func (l *loop) LocalAddr() net.Addr                { return addr{} }
func (l *loop) RemoteAddr() net.Addr               { return addr{} }
func (l *loop) SetDeadline(t time.Time) error      { return nil }
func (l *loop) SetReadDeadline(t time.Time) error  { return nil }
func (l *loop) SetWriteDeadline(t time.Time) error { return nil }

func frames(b []byte) (out []map[string]interface{}, problem string) {
	for len(b) > 0 {
		i := bytes.IndexByte(b, 0)
		if i < 0 {
			return out, "bytes after the last NUL"
		}
		v, err := decodeNum(string(b[:i]))
		if err != nil {
			return out, "frame is not JSON: " + err.Error()
		}
		o, ok := v.(map[string]interface{})
		if !ok {
			return out, "frame is not a JSON object"
		}
		out = append(out, o)
		b = b[i+1:]
	}
	return out, ""
}

// ---- the executions ----

type Violation struct {
	Case int    `json:"case"`
	Key  string `json:"key"`
	Msg  string `json:"msg"`
}

type Report struct {
	Violations []Violation    `json:"violations"`
	Executions int            `json:"executions"`
	Steps      int            `json:"steps"`
	Outcomes   map[string]int `json:"outcomes"`
	Missing    []string       `json:"missing"`
}

type Spec struct {
	Index int   `json:"index"`
	Tree  *RIDL `json:"tree"`
}

type script struct {
	method  string
	mode    string // call | more | oneway | upgrade | error
	conts   []Rec  // continues replies (mode more)
	out     Rec
	errName string
	errVal  Rec
	// observations
	invoked  int
	gotArgs  Rec
	flagView [3]bool
	replyErr []string
	shape    string
}

type runner struct {
	rep   *Report
	spec  Spec
	d     *RIDL
	pkg   *Pkg
	cur   *script
	quick bool
}

func (r *runner) fail(sym, where, format string, a ...interface{}) {
	r.rep.Violations = append(r.rep.Violations, Violation{Case: r.spec.Index, Key: "symptom=" + sym + " " + where, Msg: fmt.Sprintf(format, a...)})
	r.rep.Outcomes["violation "+sym]++
}

func kindPath(d *RIDL, t *RType) string {
	if t == nil {
		return "-"
	}
	switch t.Kind {
	case "maybe", "array", "map":
		return t.Kind + "(" + kindPath(d, t.Elem) + ")"
	case "alias":
		return "alias"
	}
	return t.Kind
}

func sig(d *RIDL, t *RType) string {
	var s []string
	for _, f := range t.Fields {
		s = append(s, kindPath(d, f.Type))
	}
	return strings.Join(s, ",")
}

func (r *runner) member(kind, name string) *RMember {
	for i := range r.d.Members {
		if r.d.Members[i].Kind == kind && r.d.Members[i].Name == name {
			return &r.d.Members[i]
		}
	}
	return nil
}

// handler is what the generated dispatcher calls (through the glue) for every method.
func (r *runner) handler(method string, ctx context.Context, call interface{}, args []interface{}) (err error) {
	s := r.cur
	if s == nil {
		return fmt.Errorf("unexpected call")
	}
	s.invoked++
	m := r.member("method", method)
	cv := reflect.ValueOf(call)
	defer func() {
		if p := recover(); p != nil {
			if se, ok := p.(shapeErr); ok {
				s.shape = se.msg
				err = nil
				return
			}
			s.shape = fmt.Sprintf("panic in the implementation/reply helper: %v\n%s", p, debug.Stack())
			err = nil
		}
	}()
	if m != nil {
		got := Rec{}
		if len(args) != len(m.In.Fields) {
			s.shape = fmt.Sprintf("implementation received %d arguments for %d input fields", len(args), len(m.In.Fields))
		} else {
			for i, f := range m.In.Fields {
				got = append(got, r.d.fromGo(reflect.ValueOf(args[i]), f.Type))
			}
		}
		s.gotArgs = got
	}
	for i, n := range []string{"WantsMore", "IsOneway", "WantsUpgrade"} {
		s.flagView[i] = cv.MethodByName(n).Call(nil)[0].Bool()
	}
	reply := func(name string, t *RType, vals Rec, continues bool) {
		fn := cv.MethodByName(name)
		if !fn.IsValid() {
			s.shape = "generated VarlinkCall has no method " + name
			return
		}
		cv.Elem().FieldByName("Continues").SetBool(continues)
		in := []reflect.Value{reflect.ValueOf(ctx)}
		ft := fn.Type()
		if ft.NumIn() != 1+len(t.Fields) {
			s.shape = fmt.Sprintf("%s takes %d parameters for %d fields", name, ft.NumIn()-1, len(t.Fields))
			return
		}
		for i, f := range t.Fields {
			in = append(in, r.d.toGo(ft.In(1+i), f.Type, vals[i]))
		}
		res := fn.Call(in)
		if e, _ := res[0].Interface().(error); e != nil {
			s.replyErr = append(s.replyErr, e.Error())
		} else {
			s.replyErr = append(s.replyErr, "")
		}
	}
	switch s.mode {
	case "foreign":
		// an error that is not one of this description's (forwarded from elsewhere): sent by name
		fn := cv.MethodByName("ReplyError")
		if !fn.IsValid() {
			s.shape = "generated VarlinkCall has no method ReplyError"
			return nil
		}
		res := fn.Call([]reflect.Value{reflect.ValueOf(ctx), reflect.ValueOf(s.errName), reflect.ValueOf(map[string]interface{}{"who": "foreign", "n": 7})})
		if e, _ := res[0].Interface().(error); e != nil {
			s.replyErr = append(s.replyErr, e.Error())
		} else {
			s.replyErr = append(s.replyErr, "")
		}
	case "error":
		e := r.member("error", s.errName)
		et := e.Type
		if et == nil {
			et = &RType{Kind: "struct"}
		}
		reply("Reply"+s.errName, et, s.errVal, false)
	default:
		for _, c := range s.conts {
			reply("Reply"+method, m.Out, c, true)
		}
		reply("Reply"+method, m.Out, s.out, false)
	}
	return nil
}

func (r *runner) newLoop(d Dispatcher) (*loop, *varlink.Connection) {
	svc, _ := varlink.NewService("v", "p", "1", "u")
	svc.RegisterInterface(d)
	l := &loop{svc: svc}
	return l, varlink.VerifNewConnection(l)
}

func (r *runner) checkRequest(l *loop, where string, m *RMember, in Rec, wantFlags map[string]bool) {
	fr, prob := frames(l.reqAll.Bytes())
	if prob != "" || len(fr) != 1 {
		r.fail("request-frame", where, "client wrote %d frames (%s): %q", len(fr), prob, l.reqAll.String())
		return
	}
	f := fr[0]
	if f["method"] != r.d.Name+"."+m.Name {
		r.fail("request-method", where, "request method %s, want %q", jstr(f["method"]), r.d.Name+"."+m.Name)
	}
	for _, fl := range []string{"more", "oneway", "upgrade"} {
		b, _ := f[fl].(bool)
		if b != wantFlags[fl] {
			r.fail("request-flags", where, "request has %s=%v, want %v: %s", fl, f[fl], wantFlags[fl], jstr(f))
		}
	}
	for k := range f {
		switch k {
		case "method", "parameters", "more", "oneway", "upgrade":
		default:
			r.fail("request-frame", where, "unknown member %q in the call frame %s", k, jstr(f))
		}
	}
	p, has := f["parameters"]
	if len(m.In.Fields) == 0 {
		if has && p != nil {
			if o, ok := p.(map[string]interface{}); !ok || len(o) != 0 {
				r.fail("request-parameters", where, "method without inputs sent parameters %s", jstr(p))
			}
		}
		return
	}
	if msg := r.d.match("parameters", m.In, in, p); msg != "" {
		r.fail("request-parameters", where+" in=("+sig(r.d, m.In)+")", "call %s(%s): %s", m.Name, show(in), msg)
	}
}

func (r *runner) checkReplies(l *loop, where string, m *RMember, want []Rec, t *RType, errName string) {
	fr, prob := frames(l.repAll.Bytes())
	if prob != "" || len(fr) != len(want) {
		r.fail("reply-frames", where, "service wrote %d frames (%s), want %d: %q", len(fr), prob, len(want), short(l.repAll.String()))
		return
	}
	for i, f := range fr {
		cont, _ := f["continues"].(bool)
		if cont != (errName == "" && i < len(want)-1) {
			r.fail("reply-continues", where, "reply %d of %d has continues=%v", i+1, len(want), f["continues"])
		}
		e, _ := f["error"].(string)
		if e != errName {
			r.fail("reply-error-name", where, "reply carries error %q, want %q", e, errName)
		}
		p := f["parameters"]
		if len(t.Fields) == 0 {
			if p != nil {
				if o, ok := p.(map[string]interface{}); !ok || len(o) != 0 {
					r.fail("reply-parameters", where, "reply without fields carries parameters %s", jstr(p))
				}
			}
			continue
		}
		if msg := r.d.match("parameters", t, want[i], p); msg != "" {
			r.fail("reply-parameters", where+" out=("+sig(r.d, t)+")", "reply %s: %s", show(want[i]), msg)
		}
	}
}

func short(s string) string {
	if len(s) > 300 {
		return s[:300] + "..."
	}
	return s
}

func (r *runner) guard(where string, f func()) {
	defer func() {
		if p := recover(); p != nil {
			if se, ok := p.(shapeErr); ok {
				r.fail("go-type-shape", where, "%s", se.msg)
				return
			}
			r.fail("stub-panic", where, "panic: %v", p)
		}
	}()
	f()
}

func (r *runner) buildArgs(fn reflect.Value, skip int, t *RType, vals Rec) []reflect.Value {
	ft := fn.Type()
	if ft.NumIn() != skip+len(t.Fields) {
		panic(shapeErr{fmt.Sprintf("client stub takes %d value parameters for %d input fields", ft.NumIn()-skip, len(t.Fields))})
	}
	var in []reflect.Value
	for i, f := range t.Fields {
		in = append(in, r.d.toGo(ft.In(skip+i), f.Type, vals[i]))
	}
	return in
}

func (r *runner) outsOf(res []reflect.Value, t *RType) Rec {
	out := Rec{}
	for i, f := range t.Fields {
		out = append(out, r.d.fromGo(res[i], f.Type))
	}
	return out
}

func (r *runner) runMethod(m *RMember) {
	ins := r.d.vectors(m.In, 0)
	outs := r.d.vectors(m.Out, 0)
	if ins == nil || outs == nil {
		r.rep.Outcomes["skipped: type without finite value"]++
		return
	}
	mobj := reflect.ValueOf(r.pkg.Methods[m.Name])
	if !mobj.IsValid() {
		r.fail("go-type-shape", "method", "generated package has no client object for method %s", m.Name)
		return
	}
	ctx := context.Background()
	type pair struct{ in, out Rec }
	var pairs []pair
	for _, i := range ins {
		pairs = append(pairs, pair{i.(Rec), outs[0].(Rec)})
	}
	for _, o := range outs[1:] {
		pairs = append(pairs, pair{ins[0].(Rec), o.(Rec)})
	}
	if r.quick && len(pairs) > 40 {
		pairs = pairs[:40]
	}
	// plain Call for every pair
	for _, p := range pairs {
		p := p
		where := "mode=call"
		r.guard(where, func() {
			l, conn := r.newLoop(r.pkg.NewFull(r.handler))
			r.cur = &script{method: m.Name, mode: "call", out: p.out}
			fn := mobj.MethodByName("Call")
			args := append([]reflect.Value{reflect.ValueOf(ctx), reflect.ValueOf(conn)}, r.buildArgs(fn, 2, m.In, p.in)...)
			res := fn.Call(args)
			r.rep.Executions++
			r.rep.Steps += 3
			s := r.cur
			r.finishCall(l, where, m, p.in, s, map[string]bool{})
			if err, _ := res[len(res)-1].Interface().(error); err != nil {
				r.fail("client-error", where, "Call(%s) returned error %v", show(p.in), err)
				return
			}
			if got := r.outsOf(res, m.Out); !avEqual(got, p.out) {
				r.fail("client-values", where+" out=("+sig(r.d, m.Out)+")", "Call returned %s, the implementation replied %s", show(got), show(p.out))
			}
			r.checkReplies(l, where, m, []Rec{p.out}, m.Out, "")
			r.rep.Outcomes["ok call"]++
		})
	}
	if len(m.Out.Fields) == 0 {
		// a method without outputs whose peer answers with an explicit empty parameters object: through Call, Send and
		// Upgrade alike the stub reports success
		for _, via := range []string{"Call", "Send", "Upgrade"} {
			via := via
			where := "mode=explicit-empty-reply via=" + via
			r.guard(where, func() {
				p := pairs[0]
				l, conn := r.newLoop(r.pkg.NewFull(r.handler))
				l.explicitEmpty = true
				r.cur = &script{method: m.Name, mode: "call", out: p.out}
				fn := mobj.MethodByName(via)
				var err error
				switch via {
				case "Call":
					res := fn.Call(append([]reflect.Value{reflect.ValueOf(ctx), reflect.ValueOf(conn)}, r.buildArgs(fn, 2, m.In, p.in)...))
					err, _ = res[len(res)-1].Interface().(error)
				case "Send":
					res := fn.Call(append([]reflect.Value{reflect.ValueOf(ctx), reflect.ValueOf(conn), reflect.ValueOf(uint64(0))}, r.buildArgs(fn, 3, m.In, p.in)...))
					if err, _ = res[1].Interface().(error); err == nil {
						rr := res[0].Call([]reflect.Value{reflect.ValueOf(ctx)})
						err, _ = rr[len(rr)-1].Interface().(error)
					}
				case "Upgrade":
					res := fn.Call(append([]reflect.Value{reflect.ValueOf(ctx), reflect.ValueOf(conn)}, r.buildArgs(fn, 2, m.In, p.in)...))
					if err, _ = res[1].Interface().(error); err == nil {
						rr := res[0].Call([]reflect.Value{reflect.ValueOf(ctx)})
						err, _ = rr[len(rr)-1].Interface().(error)
					}
				}
				r.rep.Executions++
				r.rep.Steps += 3
				if err != nil {
					r.fail("client-error", where, "the reply {\"parameters\":{}} to a method without outputs was reported as error %v", err)
					return
				}
				r.rep.Outcomes["ok explicit empty reply"]++
			})
		}
	}
	// more with k continues, oneway, upgrade: first and last pair
	sel := []pair{pairs[0]}
	if len(pairs) > 1 {
		sel = append(sel, pairs[len(pairs)-1])
	}
	if !r.quick {
		sel = pairs
	}
	for _, p := range sel {
		p := p
		for k := 0; k <= 2; k++ {
			k := k
			where := fmt.Sprintf("mode=more k=%d", k)
			r.guard(where, func() {
				l, conn := r.newLoop(r.pkg.NewFull(r.handler))
				var conts []Rec
				for i := 0; i < k; i++ {
					conts = append(conts, outs[(i+1)%len(outs)].(Rec))
				}
				r.cur = &script{method: m.Name, mode: "more", out: p.out, conts: conts}
				fn := mobj.MethodByName("Send")
				args := append([]reflect.Value{reflect.ValueOf(ctx), reflect.ValueOf(conn), reflect.ValueOf(uint64(varlink.More))}, r.buildArgs(fn, 3, m.In, p.in)...)
				res := fn.Call(args)
				r.rep.Executions++
				r.rep.Steps += 3 + k
				if err, _ := res[1].Interface().(error); err != nil {
					r.fail("client-error", where, "Send(More) returned error %v", err)
					return
				}
				recv := res[0]
				want := append(append([]Rec(nil), conts...), p.out)
				for i, w := range want {
					rr := recv.Call([]reflect.Value{reflect.ValueOf(ctx)})
					if err, _ := rr[len(rr)-1].Interface().(error); err != nil {
						r.fail("client-error", where, "receive %d returned error %v", i, err)
						return
					}
					fl := rr[len(rr)-2].Uint()
					if (fl&varlink.Continues != 0) != (i < len(want)-1) {
						r.fail("client-continues", where, "receive %d of %d reports flags %d", i+1, len(want), fl)
					}
					if got := r.outsOf(rr, m.Out); !avEqual(got, w) {
						r.fail("client-values", where+" out=("+sig(r.d, m.Out)+")", "receive %d returned %s, the implementation replied %s", i+1, show(got), show(w))
					}
				}
				r.finishCall(l, where, m, p.in, r.cur, map[string]bool{"more": true})
				r.checkReplies(l, where, m, want, m.Out, "")
				r.rep.Outcomes["ok more"]++
			})
		}
		r.guard("mode=oneway", func() {
			where := "mode=oneway"
			l, conn := r.newLoop(r.pkg.NewFull(r.handler))
			r.cur = &script{method: m.Name, mode: "oneway", out: p.out}
			fn := mobj.MethodByName("Send")
			args := append([]reflect.Value{reflect.ValueOf(ctx), reflect.ValueOf(conn), reflect.ValueOf(uint64(varlink.Oneway))}, r.buildArgs(fn, 3, m.In, p.in)...)
			res := fn.Call(args)
			r.rep.Executions++
			r.rep.Steps += 2
			if err, _ := res[1].Interface().(error); err != nil {
				r.fail("client-error", where, "Send(Oneway) returned error %v", err)
				return
			}
			l.pump()
			r.finishCall(l, where, m, p.in, r.cur, map[string]bool{"oneway": true})
			if l.repAll.Len() != 0 {
				r.fail("reply-frames", where, "a oneway call was answered: %q", short(l.repAll.String()))
			}
			r.rep.Outcomes["ok oneway"]++
		})
		r.guard("mode=upgrade", func() {
			where := "mode=upgrade"
			l, conn := r.newLoop(r.pkg.NewFull(r.handler))
			r.cur = &script{method: m.Name, mode: "upgrade", out: p.out}
			fn := mobj.MethodByName("Upgrade")
			args := append([]reflect.Value{reflect.ValueOf(ctx), reflect.ValueOf(conn)}, r.buildArgs(fn, 2, m.In, p.in)...)
			res := fn.Call(args)
			r.rep.Executions++
			r.rep.Steps += 3
			if err, _ := res[1].Interface().(error); err != nil {
				r.fail("client-error", where, "Upgrade returned error %v", err)
				return
			}
			rr := res[0].Call([]reflect.Value{reflect.ValueOf(ctx)})
			if err, _ := rr[len(rr)-1].Interface().(error); err != nil {
				r.fail("client-error", where, "upgrade receive returned error %v", err)
				return
			}
			if rr[len(rr)-2].IsNil() {
				r.fail("client-values", where, "upgrade receive returned no connection object")
			}
			if got := r.outsOf(rr, m.Out); !avEqual(got, p.out) {
				r.fail("client-values", where+" out=("+sig(r.d, m.Out)+")", "upgrade receive returned %s, the implementation replied %s", show(got), show(p.out))
			}
			r.finishCall(l, where, m, p.in, r.cur, map[string]bool{"upgrade": true})
			r.checkReplies(l, where, m, []Rec{p.out}, m.Out, "")
			r.rep.Outcomes["ok upgrade"]++
		})
	}
	// every declared error, every vector of its parameters
	for i := range r.d.Members {
		e := &r.d.Members[i]
		if e.Kind != "error" {
			continue
		}
		et := e.Type
		if et == nil {
			et = &RType{Kind: "struct"}
		}
		if et.Kind != "struct" {
			continue
		}
		evs := r.d.vectors(et, 0)
		if r.quick && len(evs) > 12 {
			evs = evs[:12]
		}
		for _, ev := range evs {
			ev := ev.(Rec)
			where := "mode=error"
			r.guard(where, func() {
				l, conn := r.newLoop(r.pkg.NewFull(r.handler))
				r.cur = &script{method: m.Name, mode: "error", errName: e.Name, errVal: ev}
				fn := mobj.MethodByName("Call")
				args := append([]reflect.Value{reflect.ValueOf(ctx), reflect.ValueOf(conn)}, r.buildArgs(fn, 2, m.In, ins[0].(Rec))...)
				res := fn.Call(args)
				r.rep.Executions++
				r.rep.Steps += 3
				r.finishCall(l, where, m, ins[0].(Rec), r.cur, map[string]bool{})
				r.checkReplies(l, where, m, []Rec{ev}, et, r.d.Name+"."+e.Name)
				err, _ := res[len(res)-1].Interface().(error)
				if err == nil {
					r.fail("client-error", where, "the implementation replied error %s but Call returned no error", e.Name)
					return
				}
				v := reflect.ValueOf(err)
				if v.Kind() != reflect.Ptr || v.Elem().Type().Name() != e.Name {
					r.fail("client-error-type", where, "error %s arrived as %T (%v)", e.Name, err, err)
					return
				}
				if got := r.d.fromGo(v.Elem(), et); !avEqual(got, ev) {
					r.fail("client-error-values", where+" err=("+sig(r.d, et)+")", "error %s arrived with %s, sent %s", e.Name, show(got), show(ev))
				}
				r.rep.Outcomes["ok error"]++
			})
		}
		// the same error through the other generated entry points (Send + receive, with and without More; Upgrade +
		// receive): the typed error is what the receive function returns, whatever stub sent the call
		if len(evs) > 0 {
			ev := evs[0].(Rec)
			for _, via := range []string{"send", "send-more", "upgrade"} {
				via := via
				where := "mode=error via=" + via
				r.guard(where, func() {
					_, conn := r.newLoop(r.pkg.NewFull(r.handler))
					r.cur = &script{method: m.Name, mode: "error", errName: e.Name, errVal: ev}
					var res []reflect.Value
					switch via {
					case "upgrade":
						fn := mobj.MethodByName("Upgrade")
						res = fn.Call(append([]reflect.Value{reflect.ValueOf(ctx), reflect.ValueOf(conn)}, r.buildArgs(fn, 2, m.In, ins[0].(Rec))...))
					default:
						fl := uint64(0)
						if via == "send-more" {
							fl = varlink.More
						}
						fn := mobj.MethodByName("Send")
						res = fn.Call(append([]reflect.Value{reflect.ValueOf(ctx), reflect.ValueOf(conn), reflect.ValueOf(fl)}, r.buildArgs(fn, 3, m.In, ins[0].(Rec))...))
					}
					r.rep.Executions++
					r.rep.Steps += 3
					if err, _ := res[1].Interface().(error); err != nil {
						r.fail("client-error", where, "sending the call returned error %v", err)
						return
					}
					rr := res[0].Call([]reflect.Value{reflect.ValueOf(ctx)})
					err, _ := rr[len(rr)-1].Interface().(error)
					if err == nil {
						r.fail("client-error", where, "the implementation replied error %s but receive returned no error", e.Name)
						return
					}
					v := reflect.ValueOf(err)
					if v.Kind() != reflect.Ptr || v.Elem().Type().Name() != e.Name {
						r.fail("client-error-type", where, "error %s arrived as %T (%v)", e.Name, err, err)
						return
					}
					if got := r.d.fromGo(v.Elem(), et); !avEqual(got, ev) {
						r.fail("client-error-values", where+" err=("+sig(r.d, et)+")", "error %s arrived with %s, sent %s", e.Name, show(got), show(ev))
					}
					r.rep.Outcomes["ok error "+via]++
				})
			}
		}
	}
	// errors that are not this description's, with names close to its own (an interface whose name extends this one's,
	// a sibling, the same member name elsewhere; an undeclared member of this interface): they arrive as the
	// generic *varlink.Error with name and parameters as sent
	{
		member := "Zzother"
		for i := range r.d.Members {
			if r.d.Members[i].Kind == "error" {
				member = r.d.Members[i].Name
				break
			}
		}
		for _, fname := range []string{r.d.Name + ".sub." + member, r.d.Name + "2." + member, r.d.Name + "-old." + member, "zz.other." + member, r.d.Name + ".Zzundeclared", r.d.Name + "." + member + "x"} {
			fname := fname
			where := "mode=foreign-error"
			r.guard(where, func() {
				_, conn := r.newLoop(r.pkg.NewFull(r.handler))
				r.cur = &script{method: m.Name, mode: "foreign", errName: fname}
				fn := mobj.MethodByName("Call")
				args := append([]reflect.Value{reflect.ValueOf(ctx), reflect.ValueOf(conn)}, r.buildArgs(fn, 2, m.In, ins[0].(Rec))...)
				res := fn.Call(args)
				r.rep.Executions++
				r.rep.Steps += 3
				if len(r.cur.replyErr) != 1 || r.cur.replyErr[0] != "" {
					r.fail("foreign-error-refused", where, "ReplyError(%q) in the implementation: %v (%s)", fname, r.cur.replyErr, r.cur.shape)
					return
				}
				err, _ := res[len(res)-1].Interface().(error)
				ve, ok := err.(*varlink.Error)
				if !ok {
					r.fail("foreign-error-type", where, "error %s, which the description does not declare, arrived as %T (%v), want *varlink.Error", fname, err, err)
					return
				}
				var p map[string]interface{}
				if raw, ok := ve.Parameters.(*json.RawMessage); ok && raw != nil {
					json.Unmarshal(*raw, &p)
				}
				if ve.Name != fname || p["who"] != "foreign" || p["n"] != float64(7) {
					r.fail("foreign-error-values", where, "error %s arrived as name %q parameters %v", fname, ve.Name, p)
					return
				}
				r.rep.Outcomes["ok foreign error"]++
			})
		}
	}
	// not overridden: MethodNotImplemented
	r.guard("mode=not-implemented", func() {
		where := "mode=not-implemented"
		l, conn := r.newLoop(r.pkg.NewNone())
		r.cur = nil
		fn := mobj.MethodByName("Call")
		args := append([]reflect.Value{reflect.ValueOf(ctx), reflect.ValueOf(conn)}, r.buildArgs(fn, 2, m.In, ins[len(ins)-1].(Rec))...)
		res := fn.Call(args)
		r.rep.Executions++
		r.rep.Steps += 2
		err, _ := res[len(res)-1].Interface().(error)
		ni, ok := err.(*varlink.MethodNotImplemented)
		if !ok || ni.Method != r.d.Name+"."+m.Name {
			r.fail("not-implemented", where, "a method the implementation does not override answered %#v, want MethodNotImplemented(%s.%s)", err, r.d.Name, m.Name)
		}
		_ = l
		r.rep.Outcomes["ok not-implemented"]++
	})
	// ... and a oneway call of such a method stays unanswered (the standard errors go through the same write path),
	// so that the next call on the connection gets its own reply
	r.guard("mode=not-implemented-oneway", func() {
		where := "mode=not-implemented-oneway"
		l, conn := r.newLoop(r.pkg.NewNone())
		r.cur = nil
		fn := mobj.MethodByName("Send")
		args := append([]reflect.Value{reflect.ValueOf(ctx), reflect.ValueOf(conn), reflect.ValueOf(uint64(varlink.Oneway))}, r.buildArgs(fn, 3, m.In, ins[len(ins)-1].(Rec))...)
		res := fn.Call(args)
		r.rep.Executions++
		r.rep.Steps += 2
		if err, _ := res[1].Interface().(error); err != nil {
			r.fail("client-error", where, "Send(Oneway) returned error %v", err)
			return
		}
		l.pump()
		if l.repAll.Len() != 0 {
			r.fail("reply-frames", where, "a oneway call of a method the implementation does not override was answered: %q", short(l.repAll.String()))
			return
		}
		r.rep.Outcomes["ok not-implemented oneway"]++
	})
	// undecodable parameters: InvalidParameter
	if len(m.In.Fields) > 0 {
		for _, raw := range []string{`5`, `"s"`, `[]`, `null`, ``, r.wrongTyped(m)} {
			if raw == "-" {
				continue
			}
			raw := raw
			where := "mode=bad-parameters"
			r.guard(where, func() {
				l, _ := r.newLoop(r.pkg.NewFull(r.handler))
				r.cur = &script{method: m.Name, mode: "call", out: outs[0].(Rec)}
				frame := `{"method":"` + r.d.Name + "." + m.Name + `"`
				if raw != "" {
					frame += `,"parameters":` + raw
				}
				frame += "}"
				l.Write(append([]byte(frame), 0))
				l.pump()
				r.rep.Executions++
				r.rep.Steps += 2
				fr, prob := frames(l.repAll.Bytes())
				if prob != "" || len(fr) != 1 || fr[0]["error"] != "org.varlink.service.InvalidParameter" {
					r.fail("invalid-parameter", where+" in=("+sig(r.d, m.In)+")", "call frame %s was answered %q (implementation invoked %d times), want InvalidParameter", frame, short(l.repAll.String()), r.cur.invoked)
					return
				}
				if r.cur.invoked != 0 {
					r.fail("invalid-parameter", where, "the implementation was invoked for undecodable parameters %s", raw)
				}
				r.rep.Outcomes["ok invalid-parameter"]++
			})
		}
	}
}

// wrongTyped builds a parameters object in which the first field has a JSON value of the wrong type.
func (r *runner) wrongTyped(m *RMember) string {
	f := m.In.Fields[0]
	t := r.d.resolve(f.Type)
	for t != nil && t.Kind == "maybe" {
		t = r.d.resolve(t.Elem)
	}
	if t == nil {
		return "-"
	}
	bad := `"x"`
	switch t.Kind {
	case "string", "enum":
		bad = `5`
	case "object":
		return "-" // any JSON value is an object value
	}
	return `{"` + f.Name + `":` + bad + `}`
}

func (r *runner) finishCall(l *loop, where string, m *RMember, in Rec, s *script, flags map[string]bool) {
	r.checkRequest(l, where, m, in, flags)
	if s.shape != "" {
		r.fail("go-type-shape", where, "%s", s.shape)
		return
	}
	if len(l.hmErrs) > 0 {
		r.fail("service-error", where, "HandleMessage returned %v", l.hmErrs)
	}
	if s.invoked != 1 {
		r.fail("dispatch-count", where, "the implementation of %s was invoked %d times", m.Name, s.invoked)
		return
	}
	if !avEqual(s.gotArgs, in) {
		r.fail("handler-arguments", where+" in=("+sig(r.d, m.In)+")", "the implementation received %s, the client passed %s", show(s.gotArgs), show(in))
	}
	want := [3]bool{flags["more"], flags["oneway"], flags["upgrade"]}
	if s.flagView != want {
		r.fail("handler-flags", where, "the implementation saw more/oneway/upgrade = %v, the client requested %v", s.flagView, want)
	}
	for i, e := range s.replyErr {
		if e != "" {
			r.fail("reply-helper-error", where, "reply helper %d returned %s", i, e)
		}
	}
}

func (r *runner) runPkg() {
	// unknown method
	r.guard("mode=unknown-method", func() {
		l, _ := r.newLoop(r.pkg.NewFull(r.handler))
		r.cur = &script{}
		l.Write(append([]byte(`{"method":"`+r.d.Name+`.Zzunknown"}`), 0))
		l.pump()
		r.rep.Executions++
		fr, prob := frames(l.repAll.Bytes())
		if prob != "" || len(fr) != 1 || fr[0]["error"] != "org.varlink.service.MethodNotFound" || !jsonEq(fr[0]["parameters"], map[string]string{"method": "Zzunknown"}) {
			r.fail("method-not-found", "mode=unknown-method", "unknown method answered %q", short(l.repAll.String()))
		}
	})
	for i := range r.d.Members {
		if r.d.Members[i].Kind == "method" {
			r.runMethod(&r.d.Members[i])
		}
	}
}

// Main: c08drv <spec.json> [quick|thorough]; prints a Report as JSON.
func Main() {
	b, err := os.ReadFile(os.Args[1])
	if err != nil {
		fmt.Fprintln(os.Stderr, err)
		os.Exit(2)
	}
	var specs []Spec
	if err := json.Unmarshal(b, &specs); err != nil {
		fmt.Fprintln(os.Stderr, err)
		os.Exit(2)
	}
	rep := &Report{Outcomes: map[string]int{}}
	quick := len(os.Args) < 3 || os.Args[2] != "thorough"
	for _, sp := range specs {
		key := fmt.Sprintf("p%d", sp.Index)
		pkg := registry[key]
		if pkg == nil {
			rep.Missing = append(rep.Missing, key)
			continue
		}
		sp.Tree.deep = !quick
		r := &runner{rep: rep, spec: sp, d: sp.Tree, pkg: pkg, quick: quick}
		func() {
			defer func() {
				if p := recover(); p != nil {
					r.fail("stub-panic", "mode=setup", "panic: %v", p)
				}
			}()
			r.runPkg()
		}()
	}
	sort.Slice(rep.Violations, func(i, j int) bool { return rep.Violations[i].Key < rep.Violations[j].Key })
	out, _ := json.Marshal(rep)
	os.Stdout.Write(out)
}
