package vsched

import "fmt"

// VC is a vector clock indexed by thread id.
type VC []uint32

func (v VC) clone() VC { return append(VC(nil), v...) }

func (v *VC) tick(id int) {
	for len(*v) <= id {
		*v = append(*v, 0)
	}
	(*v)[id]++
}

func (v *VC) join(o VC) {
	for len(*v) < len(o) {
		*v = append(*v, 0)
	}
	for i, c := range o {
		if c > (*v)[i] {
			(*v)[i] = c
		}
	}
}

func (v VC) get(id int) uint32 {
	if id < len(v) {
		return v[id]
	}
	return 0
}

// Acquire makes the running thread happen-after the last Release on obj.
func Acquire(obj interface{}) {
	x := X
	if x == nil || x.aborting {
		return
	}
	if o, ok := x.objvc[obj]; ok {
		x.cur.vc.join(o)
	}
}

// Release publishes the running thread's clock on obj.
func Release(obj interface{}) {
	x := X
	if x == nil || x.aborting {
		return
	}
	o := x.objvc[obj]
	o.join(x.cur.vc)
	x.objvc[obj] = o
	x.cur.vc.tick(x.cur.ID)
}

type accKey struct {
	obj   interface{}
	field string
}

type accRec struct {
	tid    int
	clock  uint32
	site   string
	tname  string
	atomic bool // performed by a sync/atomic operation: does not conflict with other atomic accesses
}

type accState struct {
	w     accRec
	hasW  bool
	reads []accRec
}

// Race is an HB-unordered pair of conflicting accesses.
type Race struct {
	Field   string
	First   string // site of the earlier access (in this execution's order)
	Second  string
	FirstW  bool
	SecondW bool
	Threads string
}

// funcOf strips the line number of a site "file.go:123@Func" so that keys survive unrelated edits.
func funcOf(site string) string {
	for i := 0; i < len(site); i++ {
		if site[i] == '@' {
			return site[i+1:]
		}
	}
	return site
}

func (r Race) Key() string {
	a, b := funcOf(r.First), funcOf(r.Second)
	aw, bw := r.FirstW, r.SecondW
	if b+rw(bw) < a+rw(aw) {
		a, b = b, a
		aw, bw = bw, aw
	}
	return fmt.Sprintf("%s %s(%s) %s(%s)", r.Field, a, rw(aw), b, rw(bw))
}

func rw(w bool) string {
	if w {
		return "w"
	}
	return "r"
}

// Access records a read or write of obj.field by the running thread, checks it
// against earlier accesses with the vector clocks, and is a scheduling point.
func Access(obj interface{}, field string, write bool, site string) {
	x := X
	if x == nil {
		return
	}
	Yield("access", field, always)
	x.access(obj, field, write, site)
}

// AccessAtomic records an access performed by a sync/atomic operation on obj.field (the operation itself is
// a scheduling point of its own): it races with plain accesses, never with other atomic ones.
func AccessAtomic(obj interface{}, field string, write bool, site string) {
	x := X
	if x == nil || x.aborting {
		return
	}
	x.accessA(obj, field, write, site, true)
}

// ByteSlot is the field name under which single elements of byte slices are monitored.
const ByteSlot = "[]byte element"

// AppendBytes is append for []byte in the code under test: an append that fits into the spare capacity writes
// into the backing array in place, which is a write to memory shared with every other holder of that array.
func AppendBytes(s []byte, e ...byte) []byte {
	if x := X; x != nil && !x.aborting && len(e) > 0 && cap(s)-len(s) >= len(e) {
		Access(&s[:cap(s)][len(s)], ByteSlot, true, "append in place")
	}
	return append(s, e...)
}

// ReadBytes records that the last element of b is read (the element an append in place would have written).
func ReadBytes(b []byte, site string) {
	if x := X; x != nil && !x.aborting && len(b) > 0 {
		x.access(&b[len(b)-1], ByteSlot, false, site)
	}
}

// AccessNoYield is Access without the scheduling point.
func AccessNoYield(obj interface{}, field string, write bool, site string) {
	x := X
	if x == nil || x.aborting {
		return
	}
	x.access(obj, field, write, site)
}

func (x *Exec) access(obj interface{}, field string, write bool, site string) {
	x.accessA(obj, field, write, site, false)
}

func (x *Exec) accessA(obj interface{}, field string, write bool, site string, atomic bool) {
	x.Accesses++
	t := x.cur
	k := accKey{obj, field}
	st := x.acc[k]
	if st == nil {
		st = &accState{}
		x.acc[k] = st
	}
	me := accRec{t.ID, t.vc.get(t.ID), site, t.Name, atomic}
	if st.hasW && st.w.tid != t.ID && st.w.clock > t.vc.get(st.w.tid) && !(atomic && st.w.atomic) {
		x.race(field, st.w, true, me, write)
	}
	if write {
		for _, r := range st.reads {
			if r.tid != t.ID && r.clock > t.vc.get(r.tid) && !(atomic && r.atomic) {
				x.race(field, r, false, me, true)
			}
		}
		st.w, st.hasW = me, true
		st.reads = st.reads[:0]
	} else {
		for i := range st.reads {
			if st.reads[i].tid == t.ID {
				st.reads[i] = me
				return
			}
		}
		st.reads = append(st.reads, me)
	}
}

func (x *Exec) race(field string, a accRec, aw bool, b accRec, bw bool) {
	r := Race{Field: field, First: a.site, Second: b.site, FirstW: aw, SecondW: bw, Threads: a.tname + "/" + b.tname}
	if x.raceSeen == nil {
		x.raceSeen = map[string]bool{}
	}
	if x.raceSeen[r.Key()] {
		return
	}
	x.raceSeen[r.Key()] = true
	x.Races = append(x.Races, r)
}
