package vsched

import (
	"fmt"
	"reflect"
)

// ctxHB is the happens-before object shared by all context cancellations: a
// cancel releases it, observing a closed Done channel acquires it.
type ctxHBKey struct{}

var CtxHB = ctxHBKey{}

func chanRecvReady(v reflect.Value) (ready bool, closed bool) {
	if v.Len() > 0 {
		return true, false
	}
	x, ok := v.TryRecv()
	if x.IsValid() {
		if ok {
			panic("INSTRUMENTATION-UNSUPPORTED: receive completed on an empty channel (unbuffered rendezvous is not modelled)")
		}
		return true, true // closed
	}
	return false, false
}

func chanSendReady(v reflect.Value) bool {
	if v.Cap() == 0 {
		panic("INSTRUMENTATION-UNSUPPORTED: send on an unbuffered channel is not modelled")
	}
	return v.Len() < v.Cap()
}

// ChanRecv is called immediately before a blocking receive `<-ch`.
func ChanRecv(ch interface{}) {
	if X == nil {
		return
	}
	v := reflect.ValueOf(ch)
	if v.IsNil() {
		Yield("recv", "nil-chan", func() bool { return false })
		return
	}
	closed := false
	Yield("recv", "chan", func() bool { r, c := chanRecvReady(v); closed = c; return r })
	if closed {
		Acquire(CtxHB)
	} else {
		Acquire(chanKey(v))
	}
}

// ChanSend is called immediately before a blocking send `ch <- v`.
func ChanSend(ch interface{}) {
	if X == nil {
		return
	}
	v := reflect.ValueOf(ch)
	if v.IsNil() {
		Yield("send", "nil-chan", func() bool { return false })
		return
	}
	Yield("send", "chan", func() bool { return chanSendReady(v) })
	Release(chanKey(v))
}

func chanKey(v reflect.Value) interface{} { return v.Pointer() }

// SelCase is one communication clause of a rewritten select.
type SelCase struct {
	v    reflect.Value
	send bool
}

func SelRecv(ch interface{}) SelCase { return SelCase{reflect.ValueOf(ch), false} }
func SelSend(ch interface{}) SelCase { return SelCase{reflect.ValueOf(ch), true} }

func (c SelCase) ready() (bool, bool) {
	if !c.v.IsValid() || c.v.IsNil() {
		return false, false
	}
	if c.send {
		return chanSendReady(c.v), false
	}
	return chanRecvReady(c.v)
}

// Select models a select statement: it parks until some case is ready (or
// returns -1 at once if there is a default clause and none is), and makes the
// choice among several ready cases an explored choice point.
func Select(hasDefault bool, cases ...SelCase) int {
	if X == nil {
		panic("vsched.Select outside of a controlled execution")
	}
	anyReady := func() bool {
		if hasDefault {
			return true
		}
		for _, c := range cases {
			if r, _ := c.ready(); r {
				return true
			}
		}
		return false
	}
	Yield("select", "select", anyReady)
	var ready []int
	var closed []bool
	for i, c := range cases {
		if r, cl := c.ready(); r {
			ready = append(ready, i)
			closed = append(closed, cl)
		}
	}
	if len(ready) == 0 {
		if hasDefault {
			return -1
		}
		panic("vsched.Select: chosen while no case is ready")
	}
	k := 0
	if len(ready) > 1 {
		k = Choose(len(ready), 0, fmt.Sprintf("select-ready%v", ready))
	}
	i := ready[k]
	c := cases[i]
	if c.send {
		Release(chanKey(c.v))
	} else if closed[k] {
		Acquire(CtxHB)
	} else {
		Acquire(chanKey(c.v))
	}
	return i
}
