package vsched

import (
	"fmt"
	"reflect"
)

// ctxHB is the happens-before object shared by all context cancellations: a
// cancel releases it, observing a closed Done channel acquires it.
type ctxHBKey struct{}

var CtxHB = ctxHBKey{}

func chanRecvReady(v reflect.Value) (ready bool, closed bool) {
	if v.Len() > 0 {
		return true, false
	}
	x, ok := v.TryRecv()
	if x.IsValid() {
		if ok {
			panic("INSTRUMENTATION-UNSUPPORTED: receive completed on an empty channel (unbuffered rendezvous is not modelled)")
		}
		return true, true // closed
	}
	return false, false
}

func chanSendReady(v reflect.Value) bool {
	if v.Cap() == 0 {
		panic("INSTRUMENTATION-UNSUPPORTED: send on an unbuffered channel that was not created by instrumented code")
	}
	if u := unbufOf(v); u != nil {
		// rendezvous: a send can complete only while a receiver is waiting for this channel
		return v.Len() == 0 && len(u.waiting) > 0
	}
	return v.Len() < v.Cap()
}

// ---- unbuffered channels ----
//
// `make(chan T)` in instrumented code becomes a channel with room for one value that is registered here as
// logically unbuffered. The rendezvous is modelled as one step of the sender: it is enabled only while some
// receiver is parked on the channel (in a receive or in a select with a receive case); when chosen it commits
// that receiver to this channel (a select then has to take that case) and deposits the value, so neither of
// the two real goroutines ever blocks in the real channel operation.

type unbufState struct {
	waiting []*recvWaiter
}

type recvWaiter struct {
	forced bool
}

// Unbuffered registers ch (created with capacity 1 by the rewritten make) as logically unbuffered.
func Unbuffered(ch interface{}) interface{} {
	if X != nil {
		if X.unbuf == nil {
			X.unbuf = map[uintptr]*unbufState{}
		}
		X.unbuf[reflect.ValueOf(ch).Pointer()] = &unbufState{}
	}
	return ch
}

func unbufOf(v reflect.Value) *unbufState {
	if X == nil || X.unbuf == nil {
		return nil
	}
	return X.unbuf[v.Pointer()]
}

func (u *unbufState) add() *recvWaiter {
	w := &recvWaiter{}
	u.waiting = append(u.waiting, w)
	return w
}

func (u *unbufState) remove(w *recvWaiter) {
	for i, x := range u.waiting {
		if x == w {
			u.waiting = append(u.waiting[:i], u.waiting[i+1:]...)
			return
		}
	}
}

// commit is called by a sender that has been chosen: the first waiting receiver will take this value.
func (u *unbufState) commit() {
	w := u.waiting[0]
	u.waiting = u.waiting[1:]
	w.forced = true
}

// ChanClose is called immediately before close(ch).
func ChanClose(ch interface{}) {
	if X == nil {
		return
	}
	Yield("close", "chan", always)
	Release(CtxHB)
}

// ChanRecv is called immediately before a blocking receive `<-ch`.
func ChanRecv(ch interface{}) {
	if X == nil {
		return
	}
	v := reflect.ValueOf(ch)
	if v.IsNil() {
		Yield("recv", "nil-chan", func() bool { return false })
		return
	}
	closed := false
	var w *recvWaiter
	u := unbufOf(v)
	if u != nil {
		w = u.add()
	}
	Yield("recv", "chan", func() bool { r, c := chanRecvReady(v); closed = c; return r })
	if u != nil {
		u.remove(w)
	}
	if closed {
		Acquire(CtxHB)
	} else {
		Acquire(chanKey(v))
	}
}

// ChanSend is called immediately before a blocking send `ch <- v`.
func ChanSend(ch interface{}) {
	if X == nil {
		return
	}
	v := reflect.ValueOf(ch)
	if v.IsNil() {
		Yield("send", "nil-chan", func() bool { return false })
		return
	}
	Yield("send", "chan", func() bool { return chanSendReady(v) })
	if u := unbufOf(v); u != nil {
		u.commit()
	}
	Release(chanKey(v))
}

func chanKey(v reflect.Value) interface{} { return v.Pointer() }

// SelCase is one communication clause of a rewritten select.
type SelCase struct {
	v    reflect.Value
	send bool
}

func SelRecv(ch interface{}) SelCase { return SelCase{reflect.ValueOf(ch), false} }
func SelSend(ch interface{}) SelCase { return SelCase{reflect.ValueOf(ch), true} }

func (c SelCase) ready() (bool, bool) {
	if !c.v.IsValid() || c.v.IsNil() {
		return false, false
	}
	if c.send {
		return chanSendReady(c.v), false
	}
	return chanRecvReady(c.v)
}

// Select models a select statement: it parks until some case is ready (or
// returns -1 at once if there is a default clause and none is), and makes the
// choice among several ready cases an explored choice point.
func Select(hasDefault bool, cases ...SelCase) int {
	if X == nil {
		panic("vsched.Select outside of a controlled execution")
	}
	// receive cases on unbuffered channels announce a waiting receiver for the time this select is parked
	waiters := make([]*recvWaiter, len(cases))
	for i, c := range cases {
		if !c.send && c.v.IsValid() && !c.v.IsNil() {
			if u := unbufOf(c.v); u != nil {
				waiters[i] = u.add()
			}
		}
	}
	defer func() {
		for i, w := range waiters {
			if w != nil {
				unbufOf(cases[i].v).remove(w)
			}
		}
	}()
	anyReady := func() bool {
		if hasDefault {
			return true
		}
		for _, c := range cases {
			if r, _ := c.ready(); r {
				return true
			}
		}
		return false
	}
	Yield("select", "select", anyReady)
	var ready []int
	var closed []bool
	for i, c := range cases {
		if r, cl := c.ready(); r {
			ready = append(ready, i)
			closed = append(closed, cl)
		}
	}
	if len(ready) == 0 {
		if hasDefault {
			return -1
		}
		panic("vsched.Select: chosen while no case is ready")
	}
	k := 0
	forced := -1
	for j, i := range ready {
		if waiters[i] != nil && waiters[i].forced {
			forced = j // a sender has handed its value to this select: the rendezvous is already decided
		}
	}
	if forced >= 0 {
		k = forced
	} else if len(ready) > 1 {
		k = Choose(len(ready), 0, fmt.Sprintf("select-ready%v", ready))
	}
	i := ready[k]
	c := cases[i]
	if c.send {
		if u := unbufOf(c.v); u != nil {
			u.commit()
		}
		Release(chanKey(c.v))
	} else if closed[k] {
		Acquire(CtxHB)
	} else {
		Acquire(chanKey(c.v))
	}
	return i
}
