package vsched

import (
	"fmt"
	"time"
)

// Stats accumulates what an exploration covered.
type Stats struct {
	Executions  int
	Steps       int
	ChoicePts   int
	MaxDepth    int
	Bound       int
	Capped      bool
	HorizonHits int
	Deadlocks   int
	Accesses    int
}

func (s *Stats) Add(o Stats) {
	s.Executions += o.Executions
	s.Steps += o.Steps
	s.ChoicePts += o.ChoicePts
	if o.MaxDepth > s.MaxDepth {
		s.MaxDepth = o.MaxDepth
	}
	s.Capped = s.Capped || o.Capped
	s.HorizonHits += o.HorizonHits
	s.Deadlocks += o.Deadlocks
	s.Accesses += o.Accesses
}

// Failure is a property violation found in one execution.
type Failure struct {
	Choices []int
	Msg     string
}

// item is a pending branch: the choices base[:i] of the execution it was found in, then alt. The prefix is
// materialised only when the branch is run: an execution with n choice points would otherwise pin O(n^2)
// integers (gigabytes for executions that spin up to the step horizon).
type item struct {
	base []int
	i    int // -1: the empty prefix
	alt  int
	cost int
}

func (it item) prefix() []int {
	if it.i < 0 {
		return nil
	}
	np := make([]int, it.i+1)
	copy(np, it.base[:it.i])
	np[it.i] = it.alt
	return np
}

// Explorer enumerates all executions of Body within Bound deviations.
type Explorer struct {
	Bound int
	// Preemption selects CHESS-style preemption bounding (switches at blocking points are free);
	// the default is delay bounding (Emmi, Qadeer, Rakamaric 2011): the deterministic base scheduler is
	// non-preemptive round-robin and taking the k-th other enabled thread costs k deviations.
	Preemption bool
	Cfg        Config
	Deadline   time.Time // zero = none
	MaxExec    int       // 0 = none
	// Check is called after every execution; a non-empty string is a violation.
	Check func(x *Exec) string
	Stats Stats
}

// Explore runs the DFS. It stops at the first violation (the one with the
// fewest deviations among those reachable by iterating the bound).
func (e *Explorer) Explore(body func()) *Failure {
	stack := []item{{nil, -1, 0, 0}}
	for len(stack) > 0 {
		it := stack[len(stack)-1]
		stack = stack[:len(stack)-1]
		if e.MaxExec > 0 && e.Stats.Executions >= e.MaxExec {
			e.Stats.Capped = true
			return nil
		}
		if !e.Deadline.IsZero() && e.Stats.Executions%64 == 0 && time.Now().After(e.Deadline) {
			e.Stats.Capped = true
			return nil
		}
		pre := it.prefix()
		x := Run(pre, e.Cfg, body)
		e.Stats.Executions++
		e.Stats.Steps += x.Steps
		e.Stats.ChoicePts += len(x.points)
		e.Stats.Accesses += x.Accesses
		if len(x.points) > e.Stats.MaxDepth {
			e.Stats.MaxDepth = len(x.points)
		}
		if x.divergence != "" {
			panic("vsched: " + x.divergence + fmt.Sprintf(" prefix=%v", pre))
		}
		if x.HitHorizon {
			e.Stats.HorizonHits++
		}
		if x.Deadlock {
			e.Stats.Deadlocks++
		}
		if msg := e.Check(x); msg != "" {
			return &Failure{Choices: append([]int(nil), x.Choices...), Msg: msg}
		}
		shared := append([]int(nil), x.Choices...)
		for i := len(x.points) - 1; i >= len(pre); i-- {
			p := x.points[i]
			for alt := p.nalt - 1; alt >= 1; alt-- {
				c := 0
				switch {
				case p.env:
					c = p.envCost
				case e.Preemption:
					if p.curEnable {
						c = 1
					}
				default:
					// delay bounding: taking the alt-th thread of the round-robin order skips alt threads
					c = alt
				}
				if it.cost+c > e.Bound {
					continue
				}
				stack = append(stack, item{shared, i, alt, it.cost + c})
			}
		}
	}
	return nil
}
