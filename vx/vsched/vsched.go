// Package vsched is a controlled cooperative scheduler plus a stateless,
// deviation-bounded depth-first explorer. Real goroutines are used as threads,
// exactly one of which runs at any time (baton passing). Every hooked
// operation (lock, wait-group, channel op, select, instrumented field access,
// controlled net op, environment choice) calls into this package *before* it
// executes, declaring an enabledness predicate; the scheduler then decides which
// thread runs next. The sequence of decisions is a choice sequence that the
// explorer enumerates exhaustively up to a deviation bound.
package vsched

import (
	"context"
	"fmt"
	"net"
	"os"
	"runtime"
	"runtime/debug"
	"strings"
	"sync"
	"time"
)

// Thread is one controlled goroutine.
type Thread struct {
	ID      int
	Name    string
	wake    chan struct{}
	done    bool
	started bool
	Daemon  bool // a daemon may stay parked forever without that being a deadlock
	kind    string
	obj     interface{}
	enabled func() bool
	vc      VC
	steps   int
}

type point struct {
	nalt      int
	curEnable bool // the running thread was still enabled (alternatives>0 are preemptions)
	env       bool // environment/data choice rather than a thread choice
	envCost   int
}

// Exec is the state of one execution.
type Exec struct {
	threads    []*Thread
	cur        *Thread
	prefix     []int
	Choices    []int
	points     []point
	aborting   bool
	endCh      chan struct{}
	wg         sync.WaitGroup
	Steps      int
	Horizon    int
	HitHorizon bool
	// Livelock: the step horizon was hit and the environment's observable state (bytes moved, connections
	// opened/closed, events delivered, harness steps) had not changed during the last half of the horizon:
	// library threads kept running without any effect - a spin, not a long execution.
	Livelock      bool
	lastProgress  int
	timerExpiries int
	unbuf         map[uintptr]*unbufState
	clock         time.Duration
	Deadlock      bool
	Parked        []string // description of threads parked at the end
	Panic         string
	Trace         []string
	tracing       bool
	objvc         map[interface{}]VC
	acc           map[accKey]*accState
	Races         []Race
	raceSeen      map[string]bool
	Accesses      int
	User          interface{} // harness-owned per-execution state
	finished      bool
	divergence    string
}

// ListenHook, when set, replaces the network listen of the instrumented varlink package.
var ListenHook func(network, address string) (interface{}, error)

// ActivationHook, when set and returning non-nil, is what the instrumented package's activationListener() returns:
// the process was started by socket activation and inherited this (controlled) listener.
var ActivationHook func() interface{}

// UnixListener stands for *net.UnixListener in the instrumented code: vinstr rewrites that type in assertions,
// type switches and declarations to this interface, which the real type satisfies and which the controlled
// listener handed out for a unix path address satisfies too - so that what the library does to the listener
// through the concrete type (SetUnlinkOnClose) is an event of the race monitor instead of a failed assertion.
type UnixListener interface {
	Accept() (net.Conn, error)
	Close() error
	Addr() net.Addr
	SetDeadline(time.Time) error
	SetUnlinkOnClose(bool)
	File() (*os.File, error)
}

// X is the execution in progress (nil outside of executions).
var X *Exec

// Active reports whether a controlled execution is in progress.
func Active() bool { return X != nil }

// Cur returns the running thread.
func Cur() *Thread { return X.cur }

var always = func() bool { return true }

// Always is the predicate of an operation that never blocks.
func Always() bool { return true }

func (x *Exec) tracef(format string, a ...interface{}) {
	if x.tracing {
		x.Trace = append(x.Trace, fmt.Sprintf("t%d(%s) ", x.cur.ID, x.cur.Name)+fmt.Sprintf(format, a...))
	}
}

// Tracef adds a line to the execution trace when tracing is on.
func Tracef(format string, a ...interface{}) {
	if X != nil && X.tracing {
		X.tracef(format, a...)
	}
}

// Tracing reports whether a trace is being recorded.
func Tracing() bool { return X != nil && X.tracing }

func describe(obj interface{}) string {
	if s, ok := obj.(fmt.Stringer); ok {
		return s.String()
	}
	if s, ok := obj.(string); ok {
		return s
	}
	return fmt.Sprintf("%T", obj)
}

// Yield declares the next operation of the running thread and lets the
// scheduler decide who runs. It returns when the running thread has been chosen
// to perform the operation (which is then enabled).
func Yield(kind string, obj interface{}, enabled func() bool) {
	x := X
	if x == nil {
		return
	}
	if x.aborting {
		runtime.Goexit()
	}
	t := x.cur
	t.kind, t.obj, t.enabled = kind, obj, enabled
	x.Steps++
	t.steps++
	if x.Steps > x.Horizon {
		x.HitHorizon = true
		if x.Steps-x.lastProgress > x.Horizon/2 {
			x.Livelock = true
		}
		x.abort()
		runtime.Goexit()
	}
	x.schedule(t)
	if x.tracing {
		x.tracef("%s %s", kind, describe(obj))
	}
}

// schedule picks the next thread. self is the calling thread (parked with a
// pending op, or finished).
func (x *Exec) schedule(self *Thread) {
	// enabled list in canonical order: running thread first if still enabled, then ascending ids
	var en [16]*Thread
	list := en[:0]
	curEn := false
	if !self.done && self.enabled() {
		list = append(list, self)
		curEn = true
	}
	// the others in round-robin order starting after the running thread
	n := len(x.threads)
	for k := 1; k <= n; k++ {
		t := x.threads[(self.ID+k)%n]
		if t == self || t.done {
			continue
		}
		if t.enabled == nil || t.enabled() {
			list = append(list, t)
		}
	}
	if len(list) == 0 {
		// nobody can run: either everything finished, or deadlock / quiescent
		alive := false
		for _, t := range x.threads {
			if !t.done {
				if !t.Daemon {
					alive = true
				}
				x.Parked = append(x.Parked, fmt.Sprintf("%s:%s:%s", t.Name, t.kind, describe(t.obj)))
			}
		}
		x.Deadlock = alive
		x.abort()
		if !self.done {
			runtime.Goexit()
		}
		return
	}
	c := 0
	if len(list) > 1 {
		c = x.choose(len(list), point{nalt: len(list), curEnable: curEn})
	}
	next := list[c]
	if next == self {
		return
	}
	x.cur = next
	next.wake <- struct{}{}
	if self.done {
		return
	}
	<-self.wake
	if x.aborting {
		runtime.Goexit()
	}
}

func (x *Exec) choose(n int, p point) int {
	i := len(x.Choices)
	c := 0
	if i < len(x.prefix) {
		c = x.prefix[i]
		if c >= n {
			x.divergence = fmt.Sprintf("replay divergence at point %d: choice %d of %d", i, c, n)
			c = 0
		}
	}
	x.Choices = append(x.Choices, c)
	x.points = append(x.points, p)
	return c
}

// Choose is an environment (data) choice among n alternatives; alternative 0 is
// the default answer, every other alternative costs `cost` deviations.
func Choose(n int, cost int, label string) int {
	x := X
	if x == nil || n <= 1 {
		return 0
	}
	if x.aborting {
		runtime.Goexit()
	}
	c := x.choose(n, point{nalt: n, env: true, envCost: cost})
	if x.tracing {
		x.tracef("choose %s -> %d/%d", label, c, n)
	}
	return c
}

// abort ends the execution: every parked thread is woken and exits.
func (x *Exec) abort() {
	if x.aborting {
		return
	}
	x.aborting = true
	me := x.cur
	for _, t := range x.threads {
		if t != me && !t.done {
			t.wake <- struct{}{}
		}
	}
	if !x.finished {
		x.finished = true
		close(x.endCh)
	}
}

// Go starts a new controlled thread running fn. The child is registered before
// the parent continues, so the enabled set is deterministic.
func Go(name string, fn func()) *Thread {
	x := X
	if x == nil {
		go fn()
		return nil
	}
	if x.aborting {
		runtime.Goexit()
	}
	parent := x.cur
	t := &Thread{ID: len(x.threads), Name: name, wake: make(chan struct{}, 1), kind: "start", enabled: always}
	if parent != nil {
		t.vc = parent.vc.clone()
		parent.vc.tick(parent.ID)
	}
	t.vc.tick(t.ID)
	x.threads = append(x.threads, t)
	x.wg.Add(1)
	go x.threadMain(t, fn)
	return t
}

// GoDaemon is Go for a thread that may legitimately stay parked forever.
func GoDaemon(name string, fn func()) *Thread {
	t := Go(name, fn)
	if t != nil {
		t.Daemon = true
	}
	return t
}

func (x *Exec) threadMain(t *Thread, fn func()) {
	defer x.wg.Done()
	<-t.wake
	t.started = true
	if x.aborting {
		return
	}
	defer func() {
		r := recover()
		if x.aborting {
			return
		}
		if r != nil {
			x.Panic = fmt.Sprintf("thread %s: %v\n%s", t.Name, r, trimStack(debug.Stack()))
			x.cur = t
			t.done = true
			x.abort()
			return
		}
		// normal thread exit
		t.done = true
		t.vc.tick(t.ID)
		if x.tracing {
			x.tracef("exit")
		}
		x.schedule(t)
	}()
	fn()
}

func trimStack(b []byte) string {
	lines := strings.Split(string(b), "\n")
	var out []string
	for i := 0; i < len(lines); i++ {
		l := lines[i]
		if strings.Contains(l, "vx/vsched") || strings.Contains(l, "runtime/") || strings.HasPrefix(l, "goroutine ") {
			if i+1 < len(lines) && strings.HasPrefix(lines[i+1], "\t") {
				i++
			}
			continue
		}
		if !strings.HasPrefix(l, "\t") {
			// drop argument values (addresses differ between runs)
			if i := strings.LastIndex(l, "("); i > 0 {
				l = l[:i] + "(...)"
			}
		} else if i := strings.Index(l, " +0x"); i > 0 {
			l = l[:i]
		}
		out = append(out, l)
		if len(out) > 24 {
			break
		}
	}
	return strings.Join(out, "\n")
}

// Done reports whether thread t has finished.
func (t *Thread) Done() bool { return t.done }

// JoinVC makes the running thread happen-after the end of t (used by harness joins).
func (t *Thread) JoinVC() {
	if X != nil {
		X.cur.vc.join(t.vc)
	}
}

// Join parks the running thread until t has finished.
func Join(t *Thread) {
	if t == nil {
		return
	}
	Yield("join", t.Name, func() bool { return t.done })
	X.cur.vc.join(t.vc)
}

// Result summarises one execution.
type Result struct {
	Choices    []int
	X          *Exec
	Divergence string
}

// Config bounds one execution.
type Config struct {
	Horizon int
	Trace   bool
}

// ---- time behind a seam: contexts with a timeout created by the code under test ----

// TimeoutCtxHook is installed by vnet: it returns a context whose expiry is a step of a timer thread.
var TimeoutCtxHook func(parent context.Context) (context.Context, context.CancelFunc)

// MaxTimerExpiries bounds how many library timers may fire in one execution (after that, time stands still),
// so that code which polls on a timer still lets the execution end.
const MaxTimerExpiries = 3

// TimerBudget reports whether another library timer may fire in this execution, and consumes one firing.
func TimerFire() bool {
	x := X
	if x == nil || x.timerExpiries >= MaxTimerExpiries {
		return false
	}
	x.timerExpiries++
	x.clock += time.Hour
	x.lastProgress = x.Steps
	return true
}

// TimerMayFire: a timer thread is enabled only while the execution's timer budget lasts.
func TimerMayFire() bool { return X != nil && X.timerExpiries < MaxTimerExpiries }

// WithTimeout / WithDeadline replace context.WithTimeout / WithDeadline in instrumented code: inside a
// controlled execution the expiry instant is chosen by the scheduler (any point, budget permitting).
func WithTimeout(parent context.Context, d time.Duration) (context.Context, context.CancelFunc) {
	if X == nil || TimeoutCtxHook == nil {
		return context.WithTimeout(parent, d)
	}
	return TimeoutCtxHook(parent)
}

func WithDeadline(parent context.Context, t time.Time) (context.Context, context.CancelFunc) {
	if X == nil || TimeoutCtxHook == nil {
		return context.WithDeadline(parent, t)
	}
	return TimeoutCtxHook(parent)
}

// ---- the clock: inside a controlled execution time stands still except when a timer event happens ----

var clockBase = time.Date(2030, 1, 1, 0, 0, 0, 0, time.UTC)

// Now replaces time.Now in instrumented code.
func Now() time.Time {
	if X == nil {
		return time.Now()
	}
	return clockBase.Add(X.clock)
}

func Since(t time.Time) time.Duration { return Now().Sub(t) }
func Until(t time.Time) time.Duration { return t.Sub(Now()) }

// AdvanceClock is called by timer events of the environment (accept-deadline expiry, context expiry, ...).
func AdvanceClock(d time.Duration) {
	if X != nil {
		X.clock += d
	}
}

// AfterFunc replaces context.AfterFunc: f runs in a controlled thread of its own once ctx is done, unless stopped.
func AfterFunc(ctx context.Context, f func()) (stop func() bool) {
	if X == nil {
		return context.AfterFunc(ctx, f)
	}
	stopped, started := false, false
	done := func() bool {
		select {
		case <-ctx.Done():
			return true
		default:
			return false
		}
	}
	GoDaemon("afterfunc", func() {
		Yield("afterfunc", "ctx", func() bool { return stopped || done() })
		if stopped {
			return
		}
		started = true
		Acquire(CtxHB)
		f()
	})
	return func() bool {
		if started || stopped {
			return false
		}
		stopped = true
		return true
	}
}

// Sleep replaces time.Sleep: time passing is a scheduling point, nothing more.
func Sleep(d time.Duration) {
	if X == nil {
		time.Sleep(d)
		return
	}
	Yield("sleep", "time", always)
}

// EnvProgress is called by the environment (vnet, harness threads) whenever its observable state changes.
func EnvProgress() {
	if X != nil {
		X.lastProgress = X.Steps
	}
}

// globalResets re-initialise the package-level variables of the instrumented packages (registered by
// init functions that vinstr adds), so that every execution starts from the same initial state even when
// the code under test keeps mutable state at package scope.
var globalResets []func()

// RegisterGlobalReset is called from generated init functions.
func RegisterGlobalReset(f func()) { globalResets = append(globalResets, f) }

// ResetGlobals runs all registered resets (Run does it before every execution).
func ResetGlobals() {
	for _, f := range globalResets {
		f()
	}
}

// Run performs one execution of body under the given choice prefix.
func Run(prefix []int, cfg Config, body func()) *Exec {
	if cfg.Horizon == 0 {
		cfg.Horizon = 20000
	}
	ResetGlobals()
	x := &Exec{prefix: prefix, endCh: make(chan struct{}), Horizon: cfg.Horizon, tracing: cfg.Trace,
		objvc: make(map[interface{}]VC), acc: make(map[accKey]*accState)}
	X = x
	t := Go("main", body)
	x.cur = t
	t.wake <- struct{}{}
	<-x.endCh
	x.wg.Wait()
	X = nil
	return x
}

// Divergence is non-empty when the prefix could not be replayed.
func (x *Exec) Divergence() string { return x.divergence }

// Threads lists thread names with their final state (for diagnostics).
func (x *Exec) Threads() []string {
	var out []string
	for _, t := range x.threads {
		st := "parked"
		if t.done {
			st = "done"
		}
		out = append(out, fmt.Sprintf("%d:%s:%s", t.ID, t.Name, st))
	}
	return out
}

// AliveNamed counts unfinished threads whose name starts with prefix.
func AliveNamed(prefix string) int {
	n := 0
	if X == nil {
		return 0
	}
	for _, t := range X.threads {
		if !t.done && strings.HasPrefix(t.Name, prefix) {
			n++
		}
	}
	return n
}
