// White-box accessors used by the /verif harnesses. This file is NOT part of
// varlink/go: it is added to package varlink at build time through
// `go build -overlay` (see /verif/DESIGN.md). It only adds code.

package varlink

import (
	"context"
	"encoding/json"
	"io"
	"net"
	"reflect"
	"unsafe"

	"github.com/varlink/go/varlink/internal/ctxio"
)

// VerifNewConnection wraps an established net.Conn exactly as NewConnection does after dialling.
func VerifNewConnection(c net.Conn) *Connection {
	return &Connection{conn: ctxio.NewConn(c)}
}

// VerifNewCtxConn is the object handlers and upgraded clients get.
func VerifNewCtxConn(c net.Conn) ReadWriterContext { return ctxio.NewConn(c) }


// VerifUnknown is what VerifPeek reports for a count the tree under test does not keep in the expected field.
const VerifUnknown = int64(-1) << 62

// VerifPeek reads the lifecycle state without synchronisation: for controlled
// executions (one thread runs at a time) and for quiescent services only. The fields are looked up by
// name at run time, so that a tree which keeps its state differently still builds with this file (what it
// does not have is reported as zero / nil / VerifUnknown).
func (s *Service) VerifPeek() (running bool, listener net.Listener, conncount int64, protocol, address string) {
	v := reflect.ValueOf(s).Elem()
	if f := v.FieldByName("running"); f.IsValid() && f.Kind() == reflect.Bool {
		running = f.Bool()
	}
	if f := v.FieldByName("listener"); f.IsValid() && f.Type() == reflect.TypeOf((*net.Listener)(nil)).Elem() {
		listener = *(*net.Listener)(unsafe.Pointer(f.UnsafeAddr()))
	}
	conncount = VerifUnknown
	if f := v.FieldByName("conncounter"); f.IsValid() && f.CanInt() {
		conncount = f.Int()
	}
	if f := v.FieldByName("protocol"); f.IsValid() && f.Kind() == reflect.String {
		protocol = f.String()
	}
	if f := v.FieldByName("address"); f.IsValid() && f.Kind() == reflect.String {
		address = f.String()
	}
	return
}

// VerifSetListener installs a listener the way setListener does.
func (s *Service) VerifSetListener(l net.Listener) {
	s.mutex.Lock()
	defer s.mutex.Unlock()
	if f := reflect.ValueOf(s).Elem().FieldByName("listener"); f.IsValid() && f.Type() == reflect.TypeOf((*net.Listener)(nil)).Elem() {
		*(*net.Listener)(unsafe.Pointer(f.UnsafeAddr())) = l
	}
}

// VerifNames returns the registered names in order, as an in-process GetInfo reports them (no private state
// is read: a tree that keeps its table differently still builds with this file).
func (s *Service) VerifNames() []string {
	var cp verifCapture
	if err := s.HandleMessage(context.Background(), &cp, []byte(`{"method":"org.varlink.service.GetInfo"}`)); err != nil || len(cp.out) == 0 {
		return nil
	}
	var rep struct {
		Parameters struct {
			Interfaces []string `json:"interfaces"`
		} `json:"parameters"`
	}
	json.Unmarshal(cp.out[:len(cp.out)-1], &rep)
	return rep.Parameters.Interfaces
}

type verifCapture struct{ out []byte }

func (c *verifCapture) Write(ctx context.Context, b []byte) (int, error) {
	c.out = append(c.out, b...)
	return len(b), nil
}
func (c *verifCapture) Read(ctx context.Context, b []byte) (int, error)          { return 0, io.EOF }
func (c *verifCapture) ReadBytes(ctx context.Context, d byte) ([]byte, error) { return nil, io.EOF }

// VerifNewResolver wraps an established connection exactly as NewResolver does after dialling.
func VerifNewResolver(c *Connection, address string) *Resolver {
	return &Resolver{address: address, conn: c}
}
