// White-box accessors used by the /verif harnesses. This file is NOT part of
// varlink/go: it is added to package varlink at build time through
// `go build -overlay` (see /verif/DESIGN.md). It only adds code.

package varlink

import (
	"net"

	"github.com/varlink/go/varlink/internal/ctxio"
)

// VerifNewConnection wraps an established net.Conn exactly as NewConnection does after dialling.
func VerifNewConnection(c net.Conn) *Connection {
	return &Connection{conn: ctxio.NewConn(c)}
}

// VerifNewCtxConn is the object handlers and upgraded clients get.
func VerifNewCtxConn(c net.Conn) ReadWriterContext { return ctxio.NewConn(c) }

// VerifSetListener installs a listener the way setListener does.
func (s *Service) VerifSetListener(l net.Listener) {
	s.mutex.Lock()
	s.listener = l
	s.mutex.Unlock()
}

// VerifPeek reads the lifecycle state without synchronisation: for controlled
// executions (one thread runs at a time) and for quiescent services only.
func (s *Service) VerifPeek() (running bool, listener net.Listener, conncount int64, protocol, address string) {
	return s.running, s.listener, s.conncounter, s.protocol, s.address
}

// VerifNames returns a copy of the registered names in order.
func (s *Service) VerifNames() []string { return append([]string(nil), s.names...) }

// VerifNewResolver wraps an established connection exactly as NewResolver does after dialling.
func VerifNewResolver(c *Connection, address string) *Resolver {
	return &Resolver{address: address, conn: c}
}
