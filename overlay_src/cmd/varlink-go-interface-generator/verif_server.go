// Driver used by the /verif harnesses. This file is NOT part of varlink/go: it is added to the
// generator's package main at build time through `go build -overlay` (see /verif/DESIGN.md). With
// VX_GEN_SERVER=1 the binary answers generation requests on stdin/stdout by calling the tree's own
// generateTemplate (under recover); without it the binary behaves exactly as the repository's.

package main

import (
	"bufio"
	"encoding/json"
	"fmt"
	"os"
	"runtime/debug"
)

type verifGenResp struct {
	Pkg   string `json:"pkg"`
	Out   []byte `json:"out"`
	Err   string `json:"err"`
	Panic string `json:"panic"`
}

func verifGen(d string) (resp verifGenResp) {
	defer func() {
		if p := recover(); p != nil {
			resp = verifGenResp{Panic: fmt.Sprintf("%v\n%s", p, debug.Stack())}
		}
	}()
	pkg, out, err := generateTemplate(d)
	resp.Pkg, resp.Out = pkg, out
	if err != nil {
		resp.Err = err.Error()
		if resp.Err == "" {
			resp.Err = "error"
		}
	}
	return resp
}

func init() {
	if os.Getenv("VX_GEN_SERVER") != "1" {
		return
	}
	dec := json.NewDecoder(bufio.NewReaderSize(os.Stdin, 1<<20))
	w := bufio.NewWriter(os.Stdout)
	enc := json.NewEncoder(w)
	for {
		var req struct {
			D string `json:"d"`
		}
		if err := dec.Decode(&req); err != nil {
			break
		}
		enc.Encode(verifGen(req.D))
		w.Flush()
	}
	os.Exit(0)
}
